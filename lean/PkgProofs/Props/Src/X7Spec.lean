import PkgProofs.Props.Src.SSetRead
import PkgModel.PyX7
/-!
# Seventh round, `specifiers.py`: `Specifier.__repr__/__contains__/_get_operator`, `SpecifierSet.__repr__`
= the model's `Spec.repr`, `Spec.dunderContains` (= `Spec.contains … none`), `S.getOperator`, `SpecSet.repr`.
`repr()` of a `str` is modelled for ASCII text (`Py.reprAscii`; printability of other code points is a table of the
interpreter): the two `__repr__` statements carry that hypothesis.
-/
namespace Src
open PyRt Py V S
open SSet (Member SpecSet)

theorem Specifier.__repr___translated : Gen.PySrc.Specifier.__repr___supported = true := rfl
theorem Specifier.__contains___translated : Gen.PySrc.Specifier.__contains___supported = true := rfl
theorem Specifier._get_operator_translated : Gen.PySrc.Specifier._get_operator_supported = true := rfl
theorem SpecifierSet.__repr___translated : Gen.PySrc.SpecifierSet.__repr___supported = true := rfl

theorem repr_ofOptBool_some (b : Bool) : PyRt.repr (.bool b) = .ok (if b then ofString "True" else ofString "False") := by
  cases b <;> rfl

theorem repr_ascii (s : Str) (h : isAsciiStr s = true) : PyRt.repr (.str s) = .ok (reprAscii s) := by
  simp [PyRt.repr, h]

/-- `Specifier.__repr__` -/
theorem Specifier.__repr___eq_model (sp : Spec) (ov : Option Bool) (h : isAsciiStr sp.str = true) :
    Gen.PySrc.Specifier.__repr__ (ofSpec sp ov) = .ok (.str (sp.repr ov)) := by
  unfold Gen.PySrc.Specifier.__repr__
  simp only [getattr_spec_pre, ok_bind, Specifier.__str___eq_model, repr_ascii _ h, Specifier.prereleases_eq_model]
  cases ov with
  | none => simp [ofOptBool, Spec.repr, reprPre, ofSpec]; rfl
  | some b => cases b <;> simp [ofOptBool, Spec.repr, reprPre, ofSpec, Spec.prereleases, Except.map, PyRt.repr] <;> rfl

/-- `Specifier.__contains__(item)` for a `Version` item -/
theorem Specifier.__contains___eq_model (sp : Spec) (ov : Option Bool) (c : Ver) (hc : WF c) :
    Gen.PySrc.Specifier.__contains__ (ofSpec sp ov) (ofVer "Version" c) = (sp.dunderContains ov c).map PyVal.bool := by
  unfold Gen.PySrc.Specifier.__contains__ Spec.dunderContains
  have := Specifier.contains_eq_model sp ov c hc none
  simp only [ofOptBool] at this
  rw [this]

theorem opOfStr_str (o : S.Op) : opOfStr o.str = some o := by cases o <;> rfl

/-- the bound method `_compare_<…>` of `self`, as the run-time represents it -/
def ofMethod (self : PyVal) (name : Str) : PyVal := .obj "method" [("name", .str name), ("self", self)]

theorem const_dict_getitem_nil (k : PyVal) : PyX7.const_dict_getitem [] k = .error "KeyError" := by rfl
theorem const_dict_getitem_cons (a b : PyVal) (r : List (PyVal × PyVal)) (k : PyVal) :
    PyX7.const_dict_getitem ((a, b) :: r) k = if PyVal.eq a k then .ok b else PyX7.const_dict_getitem r k := by
  simp only [PyX7.const_dict_getitem, List.find?_cons]
  cases PyVal.eq a k <;> rfl

theorem bound_method_mem (ms : List String) (self : PyVal) (n : Str) (h : ms.any (fun m => ofString m == n) = true) :
    PyX7.bound_method ms self (.str n) = .ok (ofMethod self n) := by
  simp [PyX7.bound_method, h, ofMethod]

/-- `Specifier._get_operator(op)`: the bound `_compare_*` method the table `_operators` names, `KeyError` for any other text -/
theorem Specifier._get_operator_eq_model (self : PyVal) (op : Str) :
    Gen.PySrc.Specifier._get_operator self (.str op) =
      match S.getOperator op with | some m => .ok (ofMethod self m) | none => .error "KeyError" := by
  unfold Gen.PySrc.Specifier._get_operator S.getOperator opOfStr allOps
  simp only [const_dict_getitem_cons, const_dict_getitem_nil, eq_str, List.find?_cons, List.find?_nil]
  by_cases h1 : (ofString "~=" == op) = true
  · have : (Op.compatible.str == op) = true := h1
    simp only [h1, this, if_true, ok_bind, format_str, Option.map_some]
    exact bound_method_mem _ _ _ (by decide)
  have h1' : (Op.compatible.str == op) = false := by simpa [Op.str] using h1
  by_cases h2 : (ofString "==" == op) = true
  · have : (Op.eq.str == op) = true := h2
    simp only [h1, h1', h2, this, if_true, ok_bind, format_str, Option.map_some, Bool.false_eq_true, if_false]
    exact bound_method_mem _ _ _ (by decide)
  have h2' : (Op.eq.str == op) = false := by simpa [Op.str] using h2
  by_cases h3 : (ofString "!=" == op) = true
  · have : (Op.ne.str == op) = true := h3
    simp only [h1, h1', h2, h2', h3, this, if_true, ok_bind, format_str, Option.map_some, Bool.false_eq_true, if_false]
    exact bound_method_mem _ _ _ (by decide)
  have h3' : (Op.ne.str == op) = false := by simpa [Op.str] using h3
  by_cases h4 : (ofString "<=" == op) = true
  · have : (Op.le.str == op) = true := h4
    simp only [h1, h1', h2, h2', h3, h3', h4, this, if_true, ok_bind, format_str, Option.map_some, Bool.false_eq_true, if_false]
    exact bound_method_mem _ _ _ (by decide)
  have h4' : (Op.le.str == op) = false := by simpa [Op.str] using h4
  by_cases h5 : (ofString ">=" == op) = true
  · have : (Op.ge.str == op) = true := h5
    simp only [h1, h1', h2, h2', h3, h3', h4, h4', h5, this, if_true, ok_bind, format_str, Option.map_some, Bool.false_eq_true, if_false]
    exact bound_method_mem _ _ _ (by decide)
  have h5' : (Op.ge.str == op) = false := by simpa [Op.str] using h5
  by_cases h6 : (ofString "<" == op) = true
  · have : (Op.lt.str == op) = true := h6
    simp only [h1, h1', h2, h2', h3, h3', h4, h4', h5, h5', h6, this, if_true, ok_bind, format_str, Option.map_some, Bool.false_eq_true, if_false]
    exact bound_method_mem _ _ _ (by decide)
  have h6' : (Op.lt.str == op) = false := by simpa [Op.str] using h6
  by_cases h7 : (ofString ">" == op) = true
  · have : (Op.gt.str == op) = true := h7
    simp only [h1, h1', h2, h2', h3, h3', h4, h4', h5, h5', h6, h6', h7, this, if_true, ok_bind, format_str, Option.map_some, Bool.false_eq_true, if_false]
    exact bound_method_mem _ _ _ (by decide)
  have h7' : (Op.gt.str == op) = false := by simpa [Op.str] using h7
  by_cases h8 : (ofString "===" == op) = true
  · have : (Op.arbitrary.str == op) = true := h8
    simp only [h1, h1', h2, h2', h3, h3', h4, h4', h5, h5', h6, h6', h7, h7', h8, this, if_true, ok_bind, format_str, Option.map_some, Bool.false_eq_true, if_false]
    exact bound_method_mem _ _ _ (by decide)
  have h8' : (Op.arbitrary.str == op) = false := by simpa [Op.str] using h8
  simp [h1, h1', h2, h2', h3, h3', h4, h4', h5, h5', h6, h6', h7, h7', h8, h8']

/-- the table agrees with the dispatch the model of `contains` makes: the method of operator `o` is `_compare_<o.method>` -/
theorem getOperator_op (o : S.Op) : S.getOperator o.str = some (ofString "_compare_" ++ o.method) := by
  simp [S.getOperator, opOfStr_str]

/-- `SpecifierSet.__repr__`, for every iteration order the environment prescribes -/
theorem SpecifierSet.__repr___eq_model (env : Env) (T : SpecSet) (it : List Member) (h : Ordered env T it)
    (ha : isAsciiStr (T.str it) = true) :
    Gen.PySrc.SpecifierSet.__repr__ env (ofSSet T) = .ok (.str (T.repr it)) := by
  unfold Gen.PySrc.SpecifierSet.__repr__
  simp only [getattr_sset_pre, ok_bind, SpecifierSet.__str___eq_model env T it h, repr_ascii _ ha,
    SpecifierSet.prereleases_eq_model env T it h]
  obtain ⟨specs, pre⟩ := T
  cases pre with
  | none => simp [ofOptBool, SpecSet.repr, reprPre]; rfl
  | some b => cases b <;> simp [ofOptBool, SpecSet.repr, reprPre, SpecSet.prereleases, Except.map, PyRt.repr] <;> rfl

end Src
