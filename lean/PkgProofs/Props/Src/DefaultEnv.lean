import PkgProofs.Props.Src.MarkerEval
/-!
# Translated source of `markers.default_environment` = the model `Src.defaultEnvironment`

`default_environment()` reads eleven probes of the interpreter (`sys.implementation`, `os.name`, `sys.platform`,
`platform.*()`) and builds the dict the marker evaluation starts from (`Mk.buildEnv`'s `dflt`).  The probes are
entries of the environment table (`PyRt.Env`), the library logic — which probe goes under which PEP 508 name,
`implementation_version = format_full_version(sys.implementation.version)`, `python_version` = the first two
components of `platform.python_version_tuple()` joined by a dot — is the translated code, proved equal to the model
for **every** table that answers the probes (`Answers`).  Consequences used by C07: the keys are exactly the eleven
PEP 508 variables other than `extra`, pairwise distinct (the hypothesis `Marker.evaluate_eq_model` needs), in a fixed
order that does not depend on the probes.
-/
set_option linter.unusedSimpArgs false
namespace Src
open PyRt Py PyMk

theorem default_environment_translated : Gen.PySrc.default_environment_supported = true := rfl

/-- what the interpreter reports -/
structure Probes where
  major : Nat
  minor : Nat
  micro : Nat
  level : Str
  serial : Nat
  implName : Str
  osName : Str
  sysPlatform : Str
  machine : Str
  release : Str
  system : Str
  version : Str
  pyVersion : Str
  pyImpl : Str
  pyTuple : List Str

/-- `default_environment()` as an association list in the order of the dict display; `none` = `IndexError` from
`format_full_version` (empty release level) -/
def defaultEnvironment (p : Probes) : Option (List (Str × Str)) :=
  match formatFullVersion p.major p.minor p.micro p.level p.serial with
  | none => none
  | some iver => some
    [(ofString "implementation_name", p.implName), (ofString "implementation_version", iver),
     (ofString "os_name", p.osName), (ofString "platform_machine", p.machine),
     (ofString "platform_release", p.release), (ofString "platform_system", p.system),
     (ofString "platform_version", p.version), (ofString "python_full_version", p.pyVersion),
     (ofString "platform_python_implementation", p.pyImpl),
     (ofString "python_version", Py.join [46] (p.pyTuple.take 2)), (ofString "sys_platform", p.sysPlatform)]

/-- the table answers the probes as `p` says -/
structure Answers (env : PyRt.Env) (p : Probes) : Prop where
  ver : env_get env "sys.implementation.version" = .ok (.obj "version_info" [("major", .int p.major), ("minor", .int p.minor),
        ("micro", .int p.micro), ("releaselevel", .str p.level), ("serial", .int p.serial)])
  name : env_get env "sys.implementation.name" = .ok (.str p.implName)
  os : env_get env "os.name" = .ok (.str p.osName)
  plat : env_get env "sys.platform" = .ok (.str p.sysPlatform)
  machine : env_call env "platform.machine" [] = .ok (.str p.machine)
  release : env_call env "platform.release" [] = .ok (.str p.release)
  system : env_call env "platform.system" [] = .ok (.str p.system)
  version : env_call env "platform.version" [] = .ok (.str p.version)
  pyver : env_call env "platform.python_version" [] = .ok (.str p.pyVersion)
  pyimpl : env_call env "platform.python_implementation" [] = .ok (.str p.pyImpl)
  pytuple : env_call env "platform.python_version_tuple" [] = .ok (.tuple (p.pyTuple.map .str))

theorem str_join_tuple (sep : Str) (l : List Str) : str_join (.str sep) (.tuple (l.map .str)) = .ok (.str (Py.join sep l)) := by
  simp [str_join, joinStrs_strs]

theorem take_map_str (l : List Str) (k : Nat) : (l.map PyVal.str).take k = (l.take k).map PyVal.str := by
  simp [List.map_take]

/-- **`default_environment()` = the model**, for every table answering the probes -/
theorem default_environment_eq_model (env : PyRt.Env) (p : Probes) (h : Answers env p) :
    Gen.PySrc.default_environment env =
      match defaultEnvironment p with
      | some d => .ok (.dict (d.map fun kv => (.str kv.1, .str kv.2)))
      | none => .error "IndexError" := by
  unfold Gen.PySrc.default_environment defaultEnvironment
  have h2 : getslice (.tuple (p.pyTuple.map .str)) .none (.int 2) = .ok (.tuple ((p.pyTuple.take 2).map .str)) := by
    have := getslice_tuple_to (p.pyTuple.map .str) 2
    rw [take_map_str] at this; exact this
  simp only [h.ver, h.name, h.os, h.plat, h.machine, h.release, h.system, h.version, h.pyver, h.pyimpl, h.pytuple, ok_bind,
    format_full_version_eq_model, h2, ofs_dot, str_join_tuple]
  cases formatFullVersion p.major p.minor p.micro p.level p.serial with
  | none => rfl
  | some iver => rfl

/-! ### what the default environment looks like, whatever the probes say -/

/-- the eleven PEP 508 variables the library detects (every marker variable but `extra`), in the order of the dict -/
def detectedNames : List Str :=
  [ofString "implementation_name", ofString "implementation_version", ofString "os_name", ofString "platform_machine",
   ofString "platform_release", ofString "platform_system", ofString "platform_version", ofString "python_full_version",
   ofString "platform_python_implementation", ofString "python_version", ofString "sys_platform"]

/-- **the keys of the default environment are the eleven detected names**, independently of the probes -/
theorem defaultEnvironment_keys (p : Probes) (d : List (Str × Str)) (h : defaultEnvironment p = some d) :
    d.map Prod.fst = detectedNames := by
  unfold defaultEnvironment at h
  cases hf : formatFullVersion p.major p.minor p.micro p.level p.serial with
  | none => simp [hf] at h
  | some iver => simp only [hf, Option.some.injEq] at h; subst h; rfl

theorem detectedNames_nodup : detectedNames.Nodup := by decide +kernel

/-- the detected names together with `extra` are exactly the canonical marker variables (`C09.canonicalVars`: the
names `process_env_var` produces), so every variable a marker can mention is defined once `extra` is added -/
def canonicalVariables : List Str :=
  [ofString "python_version", ofString "python_full_version", ofString "os_name", ofString "sys_platform",
   ofString "platform_release", ofString "platform_system", ofString "platform_version", ofString "platform_machine",
   ofString "platform_python_implementation", ofString "implementation_name", ofString "implementation_version", Mk.s_extra]

theorem detectedNames_canonical :
    (∀ v ∈ detectedNames ++ [Mk.s_extra], v ∈ canonicalVariables) ∧
    (∀ v ∈ canonicalVariables, v ∈ detectedNames ++ [Mk.s_extra]) := by decide +kernel

theorem defaultEnvironment_nodup (p : Probes) (d : List (Str × Str)) (h : defaultEnvironment p = some d) :
    (d.map Prod.fst).Nodup := by
  rw [defaultEnvironment_keys p d h]; exact detectedNames_nodup

/-- `python_version` is `major.minor` of the version tuple (`3.12` for `("3", "12", "1")`) … -/
theorem python_version_two (p : Probes) (d : List (Str × Str)) (h : defaultEnvironment p = some d) (a b : Str) (rest : List Str)
    (ht : p.pyTuple = a :: b :: rest) : (ofString "python_version", a ++ [46] ++ b) ∈ d := by
  unfold defaultEnvironment at h
  cases hf : formatFullVersion p.major p.minor p.micro p.level p.serial with
  | none => simp [hf] at h
  | some iver =>
    simp only [hf, Option.some.injEq] at h; subst h
    simp [ht, Py.join]

/-- **`Marker.evaluate` on the detected environment**: the distinct-keys hypothesis of `Marker.evaluate_eq_model` is
discharged for every oracle whose default environment is what `default_environment()` builds from some probes -/
theorem Marker.evaluate_eq_model_detected (O : PyMk.Oracle) (p : Probes) (hd : defaultEnvironment p = some O.dflt)
    (supplied : Option Mk.Env) (m : List Mk.M) (hn : ∀ env, Mk.buildEnv O.dflt supplied = .ok env → NoNone env) :
    Gen.PySrc.Marker.evaluate O.ext (ofMarker m) (ofSupplied supplied) =
      ofRes PyVal.bool (Mk.evaluate O.toExt O.dflt supplied m) :=
  Marker.evaluate_eq_model O (defaultEnvironment_nodup p O.dflt hd) supplied m hn

/-! ### non-vacuity: a concrete table answers a concrete description -/

def exProbes : Probes :=
  { major := 3, minor := 12, micro := 1, level := ofString "final", serial := 0, implName := ofString "cpython",
    osName := ofString "posix", sysPlatform := ofString "linux", machine := ofString "x86_64", release := ofString "6.1",
    system := ofString "Linux", version := ofString "#1", pyVersion := ofString "3.12.1", pyImpl := ofString "CPython",
    pyTuple := [ofString "3", ofString "12", ofString "1"] }

def exTable : PyRt.Env :=
  [("sys.implementation.version", .obj "version_info" [("major", .int 3), ("minor", .int 12), ("micro", .int 1),
      ("releaselevel", .str (ofString "final")), ("serial", .int 0)]),
   ("sys.implementation.name", .str (ofString "cpython")), ("os.name", .str (ofString "posix")),
   ("sys.platform", .str (ofString "linux")),
   ("platform.machine", .list [.tuple [.tuple [], .str (ofString "x86_64")]]),
   ("platform.release", .list [.tuple [.tuple [], .str (ofString "6.1")]]),
   ("platform.system", .list [.tuple [.tuple [], .str (ofString "Linux")]]),
   ("platform.version", .list [.tuple [.tuple [], .str (ofString "#1")]]),
   ("platform.python_version", .list [.tuple [.tuple [], .str (ofString "3.12.1")]]),
   ("platform.python_implementation", .list [.tuple [.tuple [], .str (ofString "CPython")]]),
   ("platform.python_version_tuple", .list [.tuple [.tuple [], .tuple [.str (ofString "3"), .str (ofString "12"), .str (ofString "1")]]])]

theorem exTable_answers : Answers exTable exProbes := by
  constructor <;> rfl

example : (defaultEnvironment exProbes).map (fun d => d.lookup (ofString "python_version")) = some (some (ofString "3.12")) ∧
    (defaultEnvironment exProbes).map (fun d => d.lookup (ofString "implementation_version")) = some (some (ofString "3.12.1")) := by
  decide +kernel

/-- the other branch: an empty release level makes `format_full_version` (and so `default_environment`) raise `IndexError` -/
example : defaultEnvironment { exProbes with level := [], serial := 2 } = none := by decide +kernel

/-- a non-final interpreter: `implementation_version` carries the first letter of the level and the serial -/
example : (defaultEnvironment { exProbes with level := ofString "candidate", serial := 2 }).map
    (fun d => d.lookup (ofString "implementation_version")) = some (some (ofString "3.12.1c2")) := by decide +kernel

end Src
