import PkgModel.Generated.PySrc
import PkgModel.PyMeta
import PkgModel.PyMetaRt
import PkgProofs.Lemmas.PyRt
import PkgProofs.Lemmas.PyStr
import PkgProofs.Lemmas.SrcLoops
import PkgProofs.Lemmas.SrcRobust
/-!
# Translated source of `packaging.metadata` (`_parse_keywords`, `_parse_project_urls`, `_Validator._process_*`) = the model

`Gen.PySrc._parse_keywords`, `_parse_project_urls` and the ten `_Validator._process_*` are the Lean translations of the
current Python source; the theorems say that on the views (`PyMeta.ofVal`, `ofEnriched`) of the model's values, and with
the model's oracle presented as `PyMeta.extOf`, they compute the views of what `Email.parseKeywords`,
`Email.parseProjectUrls` and `Meta.proc*` compute.
-/
namespace Src
open PyRt Py PyMeta
set_option linter.unusedSimpArgs false

theorem _parse_keywords_translated : Gen.PySrc._parse_keywords_supported = true := rfl
theorem _parse_project_urls_translated : Gen.PySrc._parse_project_urls_supported = true := rfl
theorem _Validator._process_metadata_version_translated :
    Gen.PySrc._Validator._process_metadata_version_supported = true := rfl
theorem _Validator._process_name_translated : Gen.PySrc._Validator._process_name_supported = true := rfl
theorem _Validator._process_version_translated : Gen.PySrc._Validator._process_version_supported = true := rfl
theorem _Validator._process_summary_translated : Gen.PySrc._Validator._process_summary_supported = true := rfl
theorem _Validator._process_dynamic_translated : Gen.PySrc._Validator._process_dynamic_supported = true := rfl
theorem _Validator._process_provides_extra_translated :
    Gen.PySrc._Validator._process_provides_extra_supported = true := rfl
theorem _Validator._process_requires_python_translated :
    Gen.PySrc._Validator._process_requires_python_supported = true := rfl
theorem _Validator._process_requires_dist_translated :
    Gen.PySrc._Validator._process_requires_dist_supported = true := rfl
theorem _Validator._process_license_expression_translated :
    Gen.PySrc._Validator._process_license_expression_supported = true := rfl
theorem _Validator._process_license_files_translated :
    Gen.PySrc._Validator._process_license_files_supported = true := rfl

namespace MetaP

/-! ### general run-time facts -/

/-- `mapM` over the view of a typed list -/
theorem mapM_map_ok {α} (f : PyVal → M PyVal) (v : α → PyVal) (g : α → PyVal) (l : List α)
    (h : ∀ x ∈ l, f (v x) = .ok (g x)) : PyRt.mapM f (l.map v) = .ok (l.map g) := by
  induction l with
  | nil => rfl
  | cons x xs ih =>
    simp only [List.map_cons, PyRt.mapM, h x (List.mem_cons_self ..), ok_bind,
      ih (fun y hy => h y (List.mem_cons_of_mem _ hy)), pure_ok]

theorem s_comma : Py.ofString "," = [44] := by decide

theorem str_strip_str (s : Str) : PyMetaRt.str_strip (.str s) = .ok (.str (Email.strip s)) := by rfl

/-- `[p.strip() for p in parts]` on a list of strings -/
theorem genexp_strip (l : List Str) :
    genexp (fun k => PyMetaRt.str_strip k) (.list (l.map .str)) = .ok (.iter ((l.map Email.strip).map .str)) := by
  simp only [genexp, iterate_list, ok_bind, pure_ok, List.map_map]
  rw [mapM_map_ok _ PyVal.str (fun s => .str (Email.strip s)) l (fun x _ => str_strip_str x)]
  rfl

end MetaP
open MetaP

/-- `_parse_keywords(data)`: split at the commas, strip every piece -/
theorem _parse_keywords_eq_model (s : Str) :
    Gen.PySrc._parse_keywords (.str s) = .ok (.list ((Email.parseKeywords s).map .str)) := by
  simp only [Gen.PySrc._parse_keywords, s_comma, str_split_single, ok_bind, genexp_strip, list_iter, pure_ok,
    Email.parseKeywords]

namespace MetaP

theorem s_empty : Py.ofString "" = [] := by decide
theorem strip_nil : Email.strip [] = [] := by rfl

/-- `pair.split(",", 1)`: one piece (no comma) or two -/
theorem splitOnMax_pair (p : Str) :
    (∃ a, splitOnMax 44 1 p = [a] ∧ Email.splitPair p = (a, [])) ∨
    (∃ a b, splitOnMax 44 1 p = [a, b] ∧ Email.splitPair p = (a, Email.strip b)) := by
  induction p with
  | nil => exact .inl ⟨[], rfl, rfl⟩
  | cons c cs ih =>
    by_cases hc : (c == 44) = true
    · refine .inr ⟨[], cs, ?_, ?_⟩
      · simp [splitOnMax, hc]
      · simp [Email.splitPair, hc]
    · have hc' : (c == 44) = false := by simpa using hc
      rcases ih with ⟨a, h1, h2⟩ | ⟨a, b, h1, h2⟩
      · refine .inl ⟨c :: a, ?_, ?_⟩
        · simp [splitOnMax, hc', h1]
        · simp [Email.splitPair, hc', h2]
      · refine .inr ⟨c :: a, b, ?_, ?_⟩
        · simp [splitOnMax, hc', h1]
        · simp [Email.splitPair, hc', h2]

theorem str_split_max_comma1 (p : Str) :
    str_split_max (.str p) (.str [44]) (.int 1) = .ok (.list ((splitOnMax 44 1 p).map .str)) := by
  simp [str_split_max]

/-- the stripped pieces of `pair.split(",", 1)`, padded to two: `parts.extend([""] * max(0, 2 - len(parts)))` -/
theorem pad_pair (p : Str) :
    list_extend (.list (((splitOnMax 44 1 p).map Email.strip).map .str))
      (.list (List.replicate
        (max 0 (2 - ((((splitOnMax 44 1 p).map Email.strip).map PyVal.str).length : Int))).toNat (.str []))) =
      .ok (.list [.str (Email.labelUrl p).1, .str (Email.labelUrl p).2]) := by
  simp only [Email.labelUrl]
  rcases splitOnMax_pair p with ⟨a, h1, h2⟩ | ⟨a, b, h1, h2⟩
  · have e : (max (0 : Int) 1).toNat = 1 := by decide
    simp [h1, h2, list_extend, strip_nil, e, List.replicate]
  · have e : (max (0 : Int) 0).toNat = 0 := by decide
    simp [h1, h2, list_extend, e]

theorem splitOnMax_ne_nil (c n : Nat) (p : Str) : splitOnMax c n p ≠ [] := by
  induction p generalizing n with
  | nil => cases n <;> simp [splitOnMax]
  | cons x xs ih =>
    cases n with
    | zero => simp [splitOnMax]
    | succ n =>
      simp only [splitOnMax]
      split
      · simp
      · split <;> simp

theorem splitOnMax_single (c : Nat) (p a : Str) (h : splitOnMax c 1 p = [a]) : a = p := by
  induction p generalizing a with
  | nil => simp [splitOnMax] at h; exact h
  | cons x xs ih =>
    simp only [splitOnMax] at h
    split at h
    · simp [splitOnMax] at h
    · split at h
      · rename_i hn; exact absurd hn (splitOnMax_ne_nil _ _ _)
      · rename_i q qs hq
        simp only [List.cons.injEq] at h
        obtain ⟨rfl, rfl⟩ := h
        rw [ih q hq]

/-- `pair.partition(",")`: the same two pieces, stripped one by one -/
theorem partition_pair (p : Str) :
    ∃ a b sep, str_partition (.str p) (.str [44]) = .ok (.tuple [.str a, .str sep, .str b]) ∧
      Email.labelUrl p = (Email.strip a, Email.strip b) := by
  simp only [Email.labelUrl, str_partition]
  rcases splitOnMax_pair p with ⟨a, h1, h2⟩ | ⟨a, b, h1, h2⟩
  · have := splitOnMax_single 44 p a h1
    subst this
    exact ⟨a, [], [], by simp [h1], by simp [h2, strip_nil]⟩
  · exact ⟨a, b, [44], by simp [h1], by simp [h2]⟩

def dictOf (acc : List (Str × Str)) : PyVal := .dict (acc.map fun p => (.str p.1, .str p.2))

theorem dictLookup_strs (acc : List (Str × Str)) (k : Str) :
    (dictLookup (acc.map fun p => (PyVal.str p.1, PyVal.str p.2)) (.str k)).isSome = (acc.map (·.1)).contains k := by
  induction acc with
  | nil => rfl
  | cons x xs ih =>
    simp only [List.map_cons, dictLookup, eq_str, List.contains_cons]
    by_cases h : x.1 = k
    · simp [h]
    · have h1 : (x.1 == k) = false := by simpa using h
      have h2 : (k == x.1) = false := by simpa using (fun e => h e.symm)
      simp [h1, h2, ih]

theorem dictSet_absent (acc : List (Str × Str)) (k : Str) (v : PyVal) (h : (acc.map (·.1)).contains k = false) :
    dictSet (acc.map fun p => (PyVal.str p.1, PyVal.str p.2)) (.str k) v =
      (acc.map fun p => (PyVal.str p.1, PyVal.str p.2)) ++ [(.str k, v)] := by
  induction acc with
  | nil => rfl
  | cons x xs ih =>
    simp only [List.map_cons, List.contains_cons, Bool.or_eq_false_iff] at h
    have h1 : (x.1 == k) = false := by
      have := h.1
      simp only [beq_eq_false_iff_ne, ne_eq] at this ⊢
      exact fun e => this e.symm
    simp only [List.map_cons, dictSet, eq_str, h1, Bool.false_eq_true, if_false, List.cons_append, ih h.2]

theorem dict_contains_dictOf (acc : List (Str × Str)) (k : Str) :
    dict_contains (dictOf acc) (.str k) = .ok ((acc.map (·.1)).contains k) := by
  simp only [dict_contains, dictOf, hashable, Bool.not_true, Bool.false_eq_true, if_false, pure_ok, dictLookup_strs]

theorem dict_setitem_dictOf (acc : List (Str × Str)) (k v : Str) (h : (acc.map (·.1)).contains k = false) :
    dict_setitem (dictOf acc) (.str k) (.str v) = .ok (dictOf (acc ++ [(k, v)])) := by
  simp only [dict_setitem, dictOf, hashable, Bool.not_true, Bool.false_eq_true, if_false, pure_ok,
    dictSet_absent acc k _ h, List.map_append, List.map_cons, List.map_nil]

theorem unpack2_list (a b : PyVal) : unpack2 (.list [a, b]) = .ok (a, b) := by rfl

/-- the loop of `_parse_project_urls` over an abstract body that does what one iteration does to the local `urls` -/
theorem urls_forIn {σ : Type} (proj : σ → PyVal) (body : PyVal → σ → M (ForInStep σ))
    (hstep : ∀ (p : Str) (s : σ) (acc : List (Str × Str)), proj s = dictOf acc →
      if (acc.map (·.1)).contains (Email.labelUrl p).1 = true then body (.str p) s = .error "KeyError"
      else ∃ s', body (.str p) s = .ok (.yield s') ∧ proj s' = dictOf (acc ++ [Email.labelUrl p])) :
    ∀ (l : List Str) (s : σ) (acc : List (Str × Str)), proj s = dictOf acc →
      match Email.parseProjectUrls l acc with
      | some d => ∃ s', forIn (l.map PyVal.str) s body = .ok s' ∧ proj s' = dictOf d
      | none => forIn (l.map PyVal.str) s body = .error "KeyError" := by
  intro l
  induction l with
  | nil => intro s acc hs; exact ⟨s, rfl, hs⟩
  | cons p ps ih =>
    intro s acc hs
    have h1 := hstep p s acc hs
    simp only [Email.parseProjectUrls, List.map_cons, List.forIn_cons]
    by_cases hc : (acc.map (·.1)).contains (Email.labelUrl p).1 = true
    · simp only [hc, if_true] at h1 ⊢
      simp only [h1, err_bind]
    · simp only [hc, if_false, Bool.false_eq_true] at h1 ⊢
      obtain ⟨s', hb, hp⟩ := h1
      simp only [hb, ok_bind]
      exact ih s' _ hp

/-- the loop followed by what only looks at `urls` -/
theorem urls_forIn_bind {σ : Type} (proj : σ → PyVal) (body : PyVal → σ → M (ForInStep σ)) (k : σ → M PyVal)
    (hstep : ∀ (p : Str) (s : σ) (acc : List (Str × Str)), proj s = dictOf acc →
      if (acc.map (·.1)).contains (Email.labelUrl p).1 = true then body (.str p) s = .error "KeyError"
      else ∃ s', body (.str p) s = .ok (.yield s') ∧ proj s' = dictOf (acc ++ [Email.labelUrl p]))
    (hk : ∀ s' d, proj s' = dictOf d → k s' = .ok (dictOf d))
    (l : List Str) (s : σ) (acc : List (Str × Str)) (hs : proj s = dictOf acc) :
    (forIn (l.map PyVal.str) s body >>= k) =
      match Email.parseProjectUrls l acc with
      | some d => .ok (.dict (d.map fun p => (.str p.1, .str p.2)))
      | none => .error "KeyError" := by
  have := urls_forIn proj body hstep l s acc hs
  cases hm : Email.parseProjectUrls l acc with
  | none => rw [hm] at this; simp only [this, err_bind]
  | some d =>
    rw [hm] at this
    obtain ⟨s', h1, h2⟩ := this
    simp only [h1, ok_bind, hk s' d h2, dictOf]

end MetaP
open MetaP

/-- `_parse_project_urls(data)`: `label, url` pairs into a dict; a repeated label is `KeyError` -/
theorem _parse_project_urls_eq_model (l : List Str) :
    Gen.PySrc._parse_project_urls (.list (l.map .str)) =
      match Email.parseProjectUrls l [] with
      | some d => .ok (.dict (d.map fun p => (.str p.1, .str p.2)))
      | none => .error "KeyError" := by
  unfold Gen.PySrc._parse_project_urls
  simp only [iterate_list, ok_bind, s_comma]
  refine urls_forIn_bind LastPy.last _ _ ?hstep ?hk l _ [] rfl
  case hk =>
    intro s' d hs
    simp only [LastPy.last] at hs
    simp only [hs, pure_ok]
  case hstep =>
    intro p s acc hs
    simp only [LastPy.last] at hs
    obtain ⟨pa, pb, psep, hpart, hlu⟩ := partition_pair p
    have hlu1 : Email.strip pa = (Email.labelUrl p).1 := by rw [hlu]
    have hlu2 : Email.strip pb = (Email.labelUrl p).2 := by rw [hlu]
    simp only [str_split_max_comma1, ok_bind, genexp_strip, list_iter, len_list, sub_int, max2_int, mul_singleton,
      s_empty, pad_pair, unpack2_list, hs, dict_contains_dictOf, hpart, unpack3, iterate_tuple, pure_ok, str_strip_str, hlu1, hlu2]
    by_cases hc : (acc.map (·.1)).contains (Email.labelUrl p).1 = true
    · simp only [hc, if_true, throw_err, err_bind]
    · have hc' : (acc.map (·.1)).contains (Email.labelUrl p).1 = false := by simpa using hc
      simp only [hc', Bool.false_eq_true, if_false, dict_setitem_dictOf _ _ _ hc', ok_bind, pure_ok]
      exact ⟨_, rfl, rfl⟩

namespace MetaP

/-! ### what `do` notation leaves behind for mutable locals across `try` (a `StateT` layer) and for `return` inside
`try` (an `ExceptT` layer) -/

@[simp] theorem stateT_pure_apply {σ α : Type} (a : α) (s : σ) : (pure a : StateT σ M α) s = .ok (a, s) := by rfl
@[simp] theorem earlyReturn_eq {ρ α : Type} (r : ρ) :
    (EarlyReturnT.return r : EarlyReturnT ρ M α) = (Except.ok (Except.error r) : M (Except ρ α)) := by rfl
@[simp] theorem runK_ok {ρ α β : Type} (a : α) (ret : ρ → β) (k : α → β) : EarlyReturn.runK (Except.ok a) ret k = k a := by rfl
@[simp] theorem runK_error {ρ α β : Type} (r : ρ) (ret : ρ → β) (k : α → β) : EarlyReturn.runK (Except.error r) ret k = ret r := by
  rfl
@[simp] theorem exceptT_run_pure {ρ α : Type} (a : α) :
    ExceptT.run (pure a : ExceptT ρ M α) = (Except.ok (Except.ok a) : M (Except ρ α)) := by rfl

/-! ### the oracle calls -/

theorem ext_name (o : Meta.Oracle) (s : Str) :
    ext_call (extOf o) "utils.canonicalize_name" [.str s, .bool true] = ofVerdict "InvalidName" .str (o.name s) := by rfl
theorem ext_version (o : Meta.Oracle) (s : Str) :
    ext_call (extOf o) "version_module.parse" [.str s] = ofVerdict "InvalidVersion" (opaqueObj "Version") (o.version s) := by
  rfl
theorem ext_spec (o : Meta.Oracle) (s : Str) :
    ext_call (extOf o) "specifiers.SpecifierSet" [.str s, .none] =
      ofVerdict "InvalidSpecifier" (opaqueObj "SpecifierSet") (o.spec s) := by rfl
theorem ext_req (o : Meta.Oracle) (s : Str) :
    ext_call (extOf o) "requirements.Requirement" [.str s] =
      ofVerdict "InvalidRequirement" (opaqueObj "Requirement") (o.req s) := by rfl
theorem ext_lic (o : Meta.Oracle) (s : Str) :
    ext_call (extOf o) "licenses.canonicalize_license_expression" [.str s] =
      ofVerdict "InvalidLicenseExpression" .str (o.lic s) := by rfl
theorem ext_lower (o : Meta.Oracle) (s : Str) :
    ext_call (extOf o) "str.lower" [.str s] = .ok (.str (o.lower s)) := by rfl

theorem versions_eq : [ofString "1.0", ofString "1.1", ofString "1.2", ofString "2.1", ofString "2.2", ofString "2.3",
    ofString "2.4"] = Gen.Meta.validVersions := by decide

/-- `x in [s1, s2, …]` for strings -/
theorem any_eq_strs (l : List Str) (s : Str) : (l.map PyVal.str).any (PyVal.eq (.str s)) = l.contains s := by
  induction l with
  | nil => rfl
  | cons x xs ih => simp only [List.map_cons, List.any_cons, eq_str, ih, List.contains_cons]

theorem contains_strs (l : List Str) (s : Str) : PyRt.contains (.list (l.map .str)) (.str s) = .ok (l.contains s) := by
  simp only [PyRt.contains, pure_ok, any_eq_strs]

end MetaP
open MetaP

theorem _Validator._process_metadata_version_eq_model (self : PyVal) (fld s : Str) :
    Gen.PySrc._Validator._process_metadata_version self (.str s) =
      ofRes ofVal (Meta.procMetadataVersion fld (.str s)) := by
  unfold Gen.PySrc._Validator._process_metadata_version Meta.procMetadataVersion
  have h : ∀ l : List Str, l = Gen.Meta.validVersions →
      PyRt.contains (.list (l.map .str)) (.str s) = .ok (Gen.Meta.validVersions.contains s) := by
    intro l hl; rw [hl]; exact contains_strs _ s
  have h' := h _ versions_eq
  simp only [List.map_cons, List.map_nil] at h'
  simp only [h', ok_bind]
  cases hc : Gen.Meta.validVersions.contains s with
  | false => simp [ofRes, excName]
  | true => simp [ofRes, ofVal]

theorem _Validator._process_name_eq_model (o : Meta.Oracle) (self : PyVal) (fld s : Str)
    (hesc : ∀ cls, o.name s = .esc cls → PyRt.catches "InvalidName" (toStringLossy cls) = false) :
    Gen.PySrc._Validator._process_name (extOf o) self (.str s) = ofRes ofVal (Meta.procName o fld (.str s)) := by
  unfold Gen.PySrc._Validator._process_name Meta.procName
  simp only [truthy_str, ext_name]
  cases hs : s.isEmpty with
  | true => simp [ofRes, excName]
  | false =>
    have c1 : catches "InvalidName" "InvalidName" = true := by decide
    cases hv : o.name s with
    | ok c => simp [ofVerdict, Meta.oneVerdict, ofRes, ofVal]
    | bad => simp [ofVerdict, Meta.oneVerdict, ofRes, excName, c1]
    | esc cls => simp [ofVerdict, Meta.oneVerdict, ofRes, excName, hesc cls hv]

theorem _Validator._process_version_eq_model (o : Meta.Oracle) (self : PyVal) (fld s : Str)
    (hesc : ∀ cls, o.version s = .esc cls → PyRt.catches "InvalidVersion" (toStringLossy cls) = false) :
    Gen.PySrc._Validator._process_version (extOf o) self (.str s) =
      ofRes (ofEnriched "Version") (Meta.procVersion o fld (.str s)) := by
  unfold Gen.PySrc._Validator._process_version Meta.procVersion
  simp only [truthy_str, ext_version]
  cases hs : s.isEmpty with
  | true => simp [ofRes, excName]
  | false =>
    have c1 : catches "InvalidVersion" "InvalidVersion" = true := by decide
    cases hv : o.version s with
    | ok c => simp [ofVerdict, Meta.oneVerdict, ofRes, ofEnriched]
    | bad => simp [ofVerdict, Meta.oneVerdict, ofRes, excName, c1]
    | esc cls => simp [ofVerdict, Meta.oneVerdict, ofRes, excName, hesc cls hv]

namespace MetaP

theorem isInfix_singleton (s : Str) (c : Nat) : PyRt.isInfix s [c] = s.contains c := by
  induction s with
  | nil => rfl
  | cons x xs ih =>
    simp only [PyRt.isInfix, startsWith, ih, List.contains_cons]
    by_cases h : x = c
    · subst h; simp
    · have h1 : (x == c) = false := by simpa using h
      have h2 : (c == x) = false := by simpa using (fun e => h e.symm)
      simp [h1, h2]

theorem contains_str_singleton (s : Str) (c : Nat) : PyRt.contains (.str s) (.str [c]) = .ok (s.contains c) := by
  simp only [PyRt.contains, pure_ok, isInfix_singleton]

end MetaP

theorem _Validator._process_summary_eq_model (self : PyVal) (fld s : Str) :
    Gen.PySrc._Validator._process_summary self (.str s) = ofRes ofVal (Meta.procSummary fld (.str s)) := by
  unfold Gen.PySrc._Validator._process_summary Meta.procSummary
  -- (`in_`, `truthy_bool`: the same test bound to a local first)
  simp only [contains_str_singleton, ok_bind, PyRt.in_, pure_ok, truthy_bool]
  cases hc : s.contains 10 with
  | false => simp [ofRes, ofVal]
  | true => simp [ofRes, excName]

namespace MetaP

/-- a loop that only checks every item (no state change): all pass, or the first failure raises -/
theorem forIn_check_bind {σ β : Type} (l : List PyVal) (s : σ) (body : PyVal → σ → M (ForInStep σ)) (p : PyVal → Bool)
    (e : PyExc) (k : σ → M β)
    (h : ∀ x ∈ l, ∀ s, body x s = if p x = true then .ok (.yield s) else .error e) :
    (forIn l s body >>= k) = if l.all p = true then k s else .error e := by
  induction l with
  | nil => simp
  | cons x xs ih =>
    simp only [List.forIn_cons, h x (List.mem_cons_self ..) s, List.all_cons]
    by_cases hp : p x = true
    · simp only [hp, if_true, ok_bind, Bool.true_and]
      exact ih (fun y hy => h y (List.mem_cons_of_mem _ hy))
    · simp [hp]

theorem genexp_lower (o : Meta.Oracle) (l : List Str) :
    genexp (fun s => ext_call (extOf o) "str.lower" [s]) (.list (l.map .str)) =
      .ok (.iter ((l.map o.lower).map .str)) := by
  simp only [genexp, iterate_list, ok_bind, pure_ok, List.map_map]
  rw [mapM_map_ok _ PyVal.str (fun s => .str (o.lower s)) l (fun x _ => ext_lower o x)]
  rfl

/-- `x in {s1, s2, …}` (a set display of strings) -/
theorem contains_set_strs (t : List PyVal) (l : List Str) (h : t = l.map .str) (d : Str) :
    contains_set (.tuple t) (.str d) = .ok (l.contains d) := by
  subst h
  simp only [contains_set, hashable, Bool.not_true, Bool.false_eq_true, if_false, PyRt.contains, pure_ok, any_eq_strs]

/-- `x in d` for a dict of strings -/
theorem dict_contains_strs (kvs : List (PyVal × PyVal)) (t : List (Str × Str))
    (h : kvs = t.map fun p => (.str p.1, .str p.2)) (d : Str) :
    dict_contains (.dict kvs) (.str d) = .ok ((Meta.akeys t).contains d) := by
  subst h
  exact dict_contains_dictOf t d

theorem forbidden_eq : [PyVal.str (ofString "name"), PyVal.str (ofString "version"),
    PyVal.str (ofString "metadata-version")] = Meta.dynamicForbidden.map .str := by rfl

end MetaP

theorem _Validator._process_dynamic_eq_model (o : Meta.Oracle) (self : PyVal) (fld : Str) (l : List Str) :
    Gen.PySrc._Validator._process_dynamic (extOf o) self (.list (l.map .str)) =
      ofRes ofVal (Meta.procDynamic o fld (.list l)) := by
  unfold Gen.PySrc._Validator._process_dynamic Meta.procDynamic
  simp only [map_, genexp_lower, ok_bind, iterate_iter]
  rw [forIn_check_bind _ _ _ (fun x => match x with | .str d => Meta.dynamicOk d | _ => false) "InvalidMetadata"]
  · simp only [List.all_map, Function.comp_def, list_iter]
    cases hc : l.all (fun x => Meta.dynamicOk (o.lower x)) with
    | false => simp [ofRes, excName]
    | true => simp [ofRes, ofVal]
  · intro x hx st
    simp only [List.mem_map] at hx
    obtain ⟨_, ⟨d, _, rfl⟩, rfl⟩ := hx
    -- the forbidden names: an inline set display or a named frozenset, in any order
    simp only [contains_set_str, contains_tuple_cons_str, contains_tuple_nil]
    rw [dict_contains_strs _ Gen.Meta.emailToRaw (by rfl)]
    generalize o.lower d = w
    by_cases e1 : w = ofString "name" <;> by_cases e2 : w = ofString "version" <;>
      by_cases e3 : w = ofString "metadata-version" <;> by_cases h2 : w ∈ Meta.akeys Gen.Meta.emailToRaw <;>
      (first
        | (subst e1; src_simp [Meta.dynamicOk, Meta.dynamicForbidden]; done)
        | (subst e2; src_simp [Meta.dynamicOk, Meta.dynamicForbidden]; done)
        | (subst e3; src_simp [Meta.dynamicOk, Meta.dynamicForbidden]; done)
        | (src_simp [e1, e2, e3, h2, Meta.dynamicOk, Meta.dynamicForbidden, Ne.symm e1, Ne.symm e2, Ne.symm e3]; done))

theorem _Validator._process_requires_python_eq_model (o : Meta.Oracle) (self : PyVal) (fld s : Str)
    (hesc : ∀ cls, o.spec s = .esc cls → PyRt.catches "InvalidSpecifier" (toStringLossy cls) = false) :
    Gen.PySrc._Validator._process_requires_python (extOf o) self (.str s) =
      ofRes (ofEnriched "SpecifierSet") (Meta.procRequiresPython o fld (.str s)) := by
  unfold Gen.PySrc._Validator._process_requires_python Meta.procRequiresPython
  simp only [ext_spec]
  have c1 : catches "InvalidSpecifier" "InvalidSpecifier" = true := by decide
  cases hv : o.spec s with
  | ok c => simp [ofVerdict, Meta.oneVerdict, ofRes, ofEnriched]
  | bad => simp [ofVerdict, Meta.oneVerdict, ofRes, excName, c1]
  | esc cls => simp [ofVerdict, Meta.oneVerdict, ofRes, excName, hesc cls hv]

theorem _Validator._process_license_expression_eq_model (o : Meta.Oracle) (self : PyVal) (fld s : Str)
    (hesc : ∀ cls, o.lic s = .esc cls → PyRt.catches "ValueError" (toStringLossy cls) = false) :
    Gen.PySrc._Validator._process_license_expression (extOf o) self (.str s) =
      ofRes ofVal (Meta.procLicenseExpression o fld (.str s)) := by
  unfold Gen.PySrc._Validator._process_license_expression Meta.procLicenseExpression
  simp only [ext_lic]
  have c1 : catches "ValueError" "InvalidLicenseExpression" = true := by decide
  cases hv : o.lic s with
  | ok c => simp [ofVerdict, Meta.oneVerdict, ofRes, ofVal]
  | bad => simp [ofVerdict, Meta.oneVerdict, ofRes, excName, c1]
  | esc cls => simp [ofVerdict, Meta.oneVerdict, ofRes, excName, hesc cls hv]

namespace MetaP

/-- a loop that runs a component parser over the items and appends the results to a local list: what the loop itself
(before the `except` clause) computes, against `Meta.mapVerdicts` -/
theorem verdicts_forIn {σ : Type} (proj : σ → PyVal) (body : PyVal → σ → M (ForInStep σ)) (doc : PyExc)
    (mk : Str → PyVal) (p : Str → Meta.Verdict) (fld : Str) (l : List Str)
    (hstep : ∀ x ∈ l, ∀ (s : σ) (acc : List PyVal), proj s = .list acc →
      match p x with
      | .ok c => ∃ s', body (.str x) s = .ok (.yield s') ∧ proj s' = .list (acc ++ [mk c])
      | .bad => body (.str x) s = .error doc
      | .esc cls => body (.str x) s = .error (toStringLossy cls)) :
    ∀ (s : σ) (acc : List PyVal), proj s = .list acc →
      match Meta.mapVerdicts fld p l with
      | .ok cs => ∃ s', forIn (l.map PyVal.str) s body = .ok s' ∧ proj s' = .list (acc ++ cs.map mk)
      | .error (.invalid _) => forIn (l.map PyVal.str) s body = .error doc
      | .error (.escape cls) =>
        forIn (l.map PyVal.str) s body = .error (toStringLossy cls) ∧ ∃ x ∈ l, p x = .esc cls := by
  induction l with
  | nil => intro s acc hs; exact ⟨s, rfl, by simpa [Meta.mapVerdicts] using hs⟩
  | cons x xs ih =>
    intro s acc hs
    have h1 := hstep x (List.mem_cons_self ..) s acc hs
    have ih' := ih (fun y hy => hstep y (List.mem_cons_of_mem _ hy))
    simp only [Meta.mapVerdicts, List.map_cons, List.forIn_cons]
    cases hv : p x with
    | bad => rw [hv] at h1; simp only [h1, err_bind]
    | esc cls => rw [hv] at h1; simp only [h1, err_bind]; exact ⟨trivial, x, List.mem_cons_self .., hv⟩
    | ok c =>
      rw [hv] at h1
      obtain ⟨s', hb, hp⟩ := h1
      simp only [hb, ok_bind]
      have h2 := ih' s' _ hp
      cases hm : Meta.mapVerdicts fld p xs with
      | ok cs =>
        rw [hm] at h2
        obtain ⟨s'', h3, h4⟩ := h2
        exact ⟨s'', h3, by simpa [Except.map] using h4⟩
      | error e =>
        rw [hm] at h2
        cases e with
        | invalid f => exact h2
        | escape cls =>
          obtain ⟨h3, y, hy, h4⟩ := h2
          exact ⟨h3, y, List.mem_cons_of_mem _ hy, h4⟩

/-- the same loop inside `try … except`: what is left to show for each way the loop can end -/
theorem verdicts_try {σ γ β : Type} (proj : σ → PyVal) (body : PyVal → σ → M (ForInStep σ)) (doc : PyExc)
    (mk : Str → PyVal) (p : Str → Meta.Verdict) (fld : Str) (l : List Str)
    (hstep : ∀ x ∈ l, ∀ (s : σ) (acc : List PyVal), proj s = .list acc →
      match p x with
      | .ok c => ∃ s', body (.str x) s = .ok (.yield s') ∧ proj s' = .list (acc ++ [mk c])
      | .bad => body (.str x) s = .error doc
      | .esc cls => body (.str x) s = .error (toStringLossy cls))
    (s : σ) (acc : List PyVal) (hs : proj s = .list acc)
    (k : σ → M γ) (h : PyExc → M γ) (K : γ → M β) (R : M β)
    (hok : ∀ s' cs, Meta.mapVerdicts fld p l = .ok cs → proj s' = .list (acc ++ cs.map mk) →
      (tryCatch (k s') h >>= K) = R)
    (hbad : ∀ f, Meta.mapVerdicts fld p l = .error (.invalid f) → (h doc >>= K) = R)
    (hesc : ∀ cls, Meta.mapVerdicts fld p l = .error (.escape cls) → (∃ x ∈ l, p x = .esc cls) →
      (h (toStringLossy cls) >>= K) = R) :
    (tryCatch (forIn (l.map PyVal.str) s body >>= k) h >>= K) = R := by
  have := verdicts_forIn proj body doc mk p fld l hstep s acc hs
  cases hm : Meta.mapVerdicts fld p l with
  | ok cs =>
    rw [hm] at this
    obtain ⟨s', h1, h2⟩ := this
    rw [h1, ok_bind]
    exact hok s' cs hm h2
  | error e =>
    rw [hm] at this
    cases e with
    | invalid f => rw [this, err_bind, tryCatch_err']; exact hbad f hm
    | escape cls => rw [this.1, err_bind, tryCatch_err']; exact hesc cls hm this.2

/-- the loop with the `try` *inside* its body (each item converted, then appended), followed by `k` -/
theorem verdicts_bind {σ β : Type} (proj : σ → PyVal) (body : PyVal → σ → M (ForInStep σ)) (doc : PyExc)
    (mk : Str → PyVal) (p : Str → Meta.Verdict) (fld : Str) (l : List Str)
    (hstep : ∀ x ∈ l, ∀ (s : σ) (acc : List PyVal), proj s = .list acc →
      match p x with
      | .ok c => ∃ s', body (.str x) s = .ok (.yield s') ∧ proj s' = .list (acc ++ [mk c])
      | .bad => body (.str x) s = .error doc
      | .esc cls => body (.str x) s = .error (toStringLossy cls))
    (s : σ) (acc : List PyVal) (hs : proj s = .list acc) (k : σ → M β) (R : M β)
    (hok : ∀ s' cs, Meta.mapVerdicts fld p l = .ok cs → proj s' = .list (acc ++ cs.map mk) → k s' = R)
    (hbad : ∀ f, Meta.mapVerdicts fld p l = .error (.invalid f) → (Except.error doc : M β) = R)
    (hesc : ∀ cls, Meta.mapVerdicts fld p l = .error (.escape cls) → (∃ x ∈ l, p x = .esc cls) →
      (Except.error (toStringLossy cls) : M β) = R) :
    (forIn (l.map PyVal.str) s body >>= k) = R := by
  have := verdicts_forIn proj body doc mk p fld l hstep s acc hs
  cases hm : Meta.mapVerdicts fld p l with
  | ok cs =>
    rw [hm] at this
    obtain ⟨s', h1, h2⟩ := this
    rw [h1, ok_bind]
    exact hok s' cs hm h2
  | error e =>
    rw [hm] at this
    cases e with
    | invalid f => rw [this, err_bind]; exact hbad f hm
    | escape cls => rw [this.1, err_bind]; exact hesc cls hm this.2

end MetaP

theorem _Validator._process_provides_extra_eq_model (o : Meta.Oracle) (self : PyVal) (fld : Str) (l : List Str)
    (hesc : ∀ x ∈ l, ∀ cls, o.name x = .esc cls → catches "InvalidName" (toStringLossy cls) = false) :
    Gen.PySrc._Validator._process_provides_extra (extOf o) self (.list (l.map .str)) =
      ofRes ofVal (Meta.procProvidesExtra o fld (.list l)) := by
  unfold Gen.PySrc._Validator._process_provides_extra Meta.procProvidesExtra
  first
  | ( -- the whole loop inside one `try`
      simp only [iterate_list, ok_bind]
      have c1 : catches "InvalidName" "InvalidName" = true := by decide
      refine verdicts_try (fun s : PyVal × PyVal => s.2) _ "InvalidName" PyVal.str o.name fld l ?hstep
        _ [] rfl _ _ _ _ ?hok ?hbad ?hesc
      case hstep =>
        intro x _ s acc hs
        simp only [ext_name]
        cases o.name x with
        | ok c =>
          simp only [ofVerdict, ok_bind, hs, list_append_list, pure_ok]
          exact ⟨_, rfl, rfl⟩
        | bad => simp only [ofVerdict, err_bind]
        | esc cls => simp only [ofVerdict, err_bind]
      case hok =>
        intro s' cs hm h2
        simp [hm, h2, ofRes, ofVal, Except.map]
      case hbad =>
        intro f hm
        simp [hm, c1, ofRes, excName, Except.map]
      case hesc =>
        intro cls hm hx
        obtain ⟨x, hx, hv⟩ := hx
        simp [hm, hesc x hx cls hv, ofRes, excName, Except.map]
        done
    )
  | ( -- the `try` around the converting call only, inside the loop
      simp only [iterate_list, ok_bind]
      have c1 : catches "InvalidName" "InvalidName" = true := by decide
      refine verdicts_bind LastPy.last _ "InvalidMetadata" PyVal.str o.name fld l ?_ _ [] rfl _ _ ?_ ?_ ?_
      · intro x hx s acc hs
        simp only [LastPy.last] at hs
        simp only [ext_name]
        cases hv : o.name x with
        | ok c => src_simp [ofVerdict, hs, list_append_list, LastPy.last, pure, Except.pure, bind, Except.bind]
        | bad => src_simp [ofVerdict, c1, pure, Except.pure, bind, Except.bind]
        | esc cls => src_simp [ofVerdict, hesc x hx cls hv, pure, Except.pure, bind, Except.bind]
      · intro s' cs hm h2
        simp only [LastPy.last] at h2
        simp [hm, h2, ofRes, ofVal, Except.map]
      · intro f hm
        simp [hm, ofRes, excName, Except.map]
      · intro cls hm hx
        simp [hm, ofRes, excName, Except.map])

theorem _Validator._process_requires_dist_eq_model (o : Meta.Oracle) (self : PyVal) (fld : Str) (l : List Str)
    (hesc : ∀ x ∈ l, ∀ cls, o.req x = .esc cls → catches "InvalidRequirement" (toStringLossy cls) = false) :
    Gen.PySrc._Validator._process_requires_dist (extOf o) self (.list (l.map .str)) =
      ofRes (ofEnriched "Requirement") (Meta.procRequiresDist o fld (.list l)) := by
  unfold Gen.PySrc._Validator._process_requires_dist Meta.procRequiresDist
  first
  | ( -- the whole loop inside one `try`
      simp only [iterate_list, ok_bind]
      have c1 : catches "InvalidRequirement" "InvalidRequirement" = true := by decide
      refine verdicts_try (fun s : PyVal × PyVal => s.2) _ "InvalidRequirement" (opaqueObj "Requirement") o.req fld l ?hstep
        _ [] rfl _ _ _ _ ?hok ?hbad ?hesc
      case hstep =>
        intro x _ s acc hs
        simp only [ext_req]
        cases o.req x with
        | ok c =>
          simp only [ofVerdict, ok_bind, hs, list_append_list, pure_ok]
          exact ⟨_, rfl, rfl⟩
        | bad => simp only [ofVerdict, err_bind]
        | esc cls => simp only [ofVerdict, err_bind]
      case hok =>
        intro s' cs hm h2
        simp [hm, h2, ofRes, ofEnriched, Except.map]
      case hbad =>
        intro f hm
        simp [hm, c1, ofRes, excName, Except.map]
      case hesc =>
        intro cls hm hx
        obtain ⟨x, hx, hv⟩ := hx
        simp [hm, hesc x hx cls hv, ofRes, excName, Except.map]
        done
    )
  | ( -- the `try` around the converting call only, inside the loop
      simp only [iterate_list, ok_bind]
      have c1 : catches "InvalidRequirement" "InvalidRequirement" = true := by decide
      refine verdicts_bind LastPy.last _ "InvalidMetadata" (opaqueObj "Requirement") o.req fld l ?_ _ [] rfl _ _ ?_ ?_ ?_
      · intro x hx s acc hs
        simp only [LastPy.last] at hs
        simp only [ext_req]
        cases hv : o.req x with
        | ok c => src_simp [ofVerdict, hs, list_append_list, LastPy.last, pure, Except.pure, bind, Except.bind]
        | bad => src_simp [ofVerdict, c1, pure, Except.pure, bind, Except.bind]
        | esc cls => src_simp [ofVerdict, hesc x hx cls hv, pure, Except.pure, bind, Except.bind]
      · intro s' cs hm h2
        simp only [LastPy.last] at h2
        simp [hm, h2, ofRes, ofEnriched, Except.map]
      · intro f hm
        simp [hm, ofRes, excName, Except.map]
      · intro cls hm hx
        simp [hm, ofRes, excName, Except.map])

namespace MetaP

/-- a loop that checks every item and appends the ones that pass to a local list: all pass, or the first failure raises -/
theorem forIn_guard_append_bind {β : Type} (items : List PyVal) (acc : List PyVal)
    (body : PyVal → PyVal → M (ForInStep PyVal)) (p : PyVal → Bool) (e : PyExc) (k : PyVal → M β)
    (h : ∀ x ∈ items, ∀ acc, body x (.list acc) = if p x = true then .ok (.yield (.list (acc ++ [x]))) else .error e) :
    (forIn items (PyVal.list acc) body >>= k) = if items.all p = true then k (.list (acc ++ items)) else .error e := by
  induction items generalizing acc with
  | nil => simp
  | cons x xs ih =>
    simp only [List.forIn_cons, h x (List.mem_cons_self ..) acc, List.all_cons]
    by_cases hp : p x = true
    · simp only [hp, if_true, ok_bind, Bool.true_and]
      rw [ih _ (fun y hy => h y (List.mem_cons_of_mem _ hy))]
      simp
    · simp [hp]

/-- the same with the list anywhere in a larger loop state (`proj`), followed by code that only looks at the list -/
theorem forIn_guard_append_bind' {σ β : Type} (proj : σ → PyVal) (items : List PyVal)
    (body : PyVal → σ → M (ForInStep σ)) (p : PyVal → Bool) (e : PyExc) (k : σ → M β) (R : PyVal → M β)
    (h : ∀ x ∈ items, ∀ (s : σ) (acc : List PyVal), proj s = .list acc →
      if p x = true then ∃ s', body x s = .ok (.yield s') ∧ proj s' = .list (acc ++ [x]) else body x s = .error e)
    (hk : ∀ s l, proj s = .list l → k s = R (.list l)) :
    ∀ (s : σ) (acc : List PyVal), proj s = .list acc →
      (forIn items s body >>= k) = if items.all p = true then R (.list (acc ++ items)) else .error e := by
  induction items with
  | nil => intro s acc hs; simp [hk s acc hs]
  | cons x xs ih =>
    intro s acc hs
    have hx := h x (List.mem_cons_self ..) s acc hs
    by_cases hp : p x = true
    · simp only [hp, if_true] at hx
      obtain ⟨s', h1, h2⟩ := hx
      simp only [List.forIn_cons, h1, ok_bind, List.all_cons, hp, Bool.true_and]
      rw [ih (fun y hy => h y (List.mem_cons_of_mem _ hy)) s' _ h2]
      simp
    · simp only [hp, if_false, Bool.false_eq_true] at hx
      simp [List.forIn_cons, hx, hp]

theorem isInfix_swap (s sub : Str) : PyRt.isInfix s sub = Meta.isInfix sub s := by
  induction s with
  | nil => rfl
  | cons c cs ih => simp only [PyRt.isInfix, Meta.isInfix, ih]

theorem contains_str_str (s sub : Str) : PyRt.contains (.str s) (.str sub) = .ok (Meta.isInfix sub s) := by
  simp only [PyRt.contains, pure_ok, isInfix_swap]

theorem s_star : Py.ofString "*" = [42] := by decide

theorem meta_isInfix_singleton (c : Nat) (s : Str) : Meta.isInfix [c] s = s.contains c := by
  rw [← isInfix_swap, isInfix_singleton]

theorem ext_posixPath (o : Meta.Oracle) (s : Str) :
    ext_call (extOf o) "pathlib.PurePosixPath" [.str s] = .ok (opaqueObj "PurePosixPath" s) := by rfl
theorem ext_winPath (o : Meta.Oracle) (s : Str) :
    ext_call (extOf o) "pathlib.PureWindowsPath" [.str s] = .ok (opaqueObj "PureWindowsPath" s) := by rfl
theorem ext_posixAbs (o : Meta.Oracle) (c : String) (s : Str) :
    ext_call (extOf o) "PurePosixPath.is_absolute" [opaqueObj c s] = .ok (.bool (o.posixAbs s)) := by rfl
theorem ext_winAbs (o : Meta.Oracle) (c : String) (s : Str) :
    ext_call (extOf o) "PureWindowsPath.is_absolute" [opaqueObj c s] = .ok (.bool (o.winAbs s)) := by rfl
theorem ext_winPosix (o : Meta.Oracle) (c : String) (s : Str) :
    ext_call (extOf o) "PureWindowsPath.as_posix" [opaqueObj c s] = .ok (.str (o.winPosix s)) := by rfl

end MetaP

theorem _Validator._process_license_files_eq_model (o : Meta.Oracle) (self : PyVal) (fld : Str) (l : List Str) :
    Gen.PySrc._Validator._process_license_files (extOf o) self (.list (l.map .str)) =
      ofRes ofVal (Meta.procLicenseFiles o fld (.list l)) := by
  unfold Gen.PySrc._Validator._process_license_files Meta.procLicenseFiles
  simp only [iterate_list, ok_bind]
  rw [forIn_guard_append_bind' LastPy.last _ _ (fun x => match x with | .str p => Meta.pathOk o p | _ => false)
    "InvalidMetadata" _ pure ?h ?hk _ [] rfl]
  case hk => intro s' l' hs'; simp only [LastPy.last] at hs'; simp [hs']
  · simp only [List.all_map, Function.comp_def, List.nil_append, pure_ok]
    cases hc : l.all (fun x => Meta.pathOk o x) with
    | false => simp [ofRes, excName]
    | true => simp [ofRes, ofVal]
  · intro x hx st acc hst
    simp only [LastPy.last] at hst
    simp only [List.mem_map] at hx
    obtain ⟨p, _, rfl⟩ := hx
    simp only [hst, LastPy.last, s_star, contains_str_str, meta_isInfix_singleton, ext_posixPath, ext_winPath, ext_posixAbs, ext_winAbs,
      ext_winPosix, ok_bind, truthy_bool, eq_str, list_append_list, pure_ok, throw_err, err_bind, Meta.pathOk]
    by_cases h1 : Meta.isInfix (ofString "..") p = true
    · simp [h1]
    · by_cases h2 : 42 ∈ p
      · simp [h1, h2]
      · by_cases h3 : o.posixAbs p = true
        · simp [h1, h2, h3]
        · by_cases h4 : o.winAbs p = true
          · simp [h1, h2, h3, h4]
          · by_cases h5 : o.winPosix p = p
            · simp [h1, h2, h3, h4, h5]
            · simp [h1, h2, h3, h4, h5]

end Src
