import PkgModel.Generated.PySrc
import PkgModel.Tags
import PkgProofs.Lemmas.PyRt
import PkgProofs.Lemmas.SrcRobust
import PkgProofs.Lemmas.SrcLoops
/-!
# Translated source of `packaging.tags` = the model (`PkgModel/Tags.lean`)
-/
namespace Src
open PyRt Py Tags

theorem _version_nodot_translated : Gen.PySrc._version_nodot_supported = true := rfl
theorem _py_interpreter_range_translated : Gen.PySrc._py_interpreter_range_supported = true := rfl
theorem _abi3_applies_translated : Gen.PySrc._abi3_applies_supported = true := rfl
theorem _is_threaded_cpython_translated : Gen.PySrc._is_threaded_cpython_supported = true := rfl

/-- a version tuple -/
def ofVersion (v : List Nat) : PyVal := .tuple (v.map ofNat)

theorem _version_nodot_eq_model (v : List Nat) :
    Gen.PySrc._version_nodot (ofVersion v) = .ok (.str (versionNodot v)) := by
  unfold Gen.PySrc._version_nodot
  have : map_ str_ (ofVersion v) = .ok (.iter ((v.map dec).map .str)) := by
    rw [map_, ofVersion, genexp_ok _ (fun x => match x with | .int i => .str (if i < 0 then 45 :: dec i.natAbs else dec i.toNat) | _ => .none)
      _ _ (by rfl)]
    · simp [List.map_map, Function.comp_def, ofNat]
    · intro x hx
      simp only [List.mem_map] at hx
      obtain ⟨n, _, rfl⟩ := hx
      simp [ofNat, str_, format]
  simp only [this, ok_bind, pure_ok]
  rw [show (ofString "") = [] from rfl, str_join_iter, join_nil]
  rfl

/-- `range(n - 1, lo - 1, -1)` -/
theorem range_down (n lo : Nat) :
    range3 (.int ((n : Int) - 1)) (.int ((lo : Int) - 1)) (.int (-1)) = .ok (.iter ((Tags.rangeDown n lo).map ofNat)) := by
  have key : ∀ n : Nat, PyRt.rangeDown (n - lo) ((n : Int) - 1) ((lo : Int) - 1) (-1) = (Tags.rangeDown n lo).map ofNat := by
    intro n
    induction n with
    | zero => simp [PyRt.rangeDown, Tags.rangeDown]
    | succ k ih =>
      by_cases hl : lo ≤ k
      · have e : k + 1 - lo = (k - lo) + 1 := by omega
        have hgt : ((k + 1 : Nat) : Int) - 1 > (lo : Int) - 1 := by omega
        have e2 : ((k + 1 : Nat) : Int) - 1 + -1 = (k : Int) - 1 := by omega
        have e3 : ((k + 1 : Nat) : Int) - 1 = (k : Int) := by omega
        rw [e]
        simp only [PyRt.rangeDown, Tags.rangeDown, hl, if_true, List.map_cons, ofNat, e3]
        have hgt' : (k : Int) > (lo : Int) - 1 := by omega
        have e4 : (k : Int) + -1 = (k : Int) - 1 := by omega
        rw [if_pos hgt', e4, ih]
      · have e : k + 1 - lo = 0 := by omega
        simp [e, PyRt.rangeDown, Tags.rangeDown, hl]
  have e : (((n : Int) - 1) - ((lo : Int) - 1)).toNat = n - lo := by omega
  simp only [range3, show ((-1 : Int) == 0) = false from rfl, Bool.false_eq_true, if_false,
    show ¬ ((-1 : Int) > 0) from by omega, e, key, pure_ok]

theorem _py_interpreter_range_eq_model (v : List Nat) (h : v ≠ []) :
    Gen.PySrc._py_interpreter_range (ofVersion v) = .ok (.iter ((pyInterpreterRange v).map .str)) := by
  unfold Gen.PySrc._py_interpreter_range
  rcases v with _ | ⟨a, _ | ⟨b, rest⟩⟩
  · exact absurd rfl h
  · simp [ofVersion, cmp, gt, asInt, Cmp.onInt, pyInterpreterRange, ofNat, ofString, sPy]
  · have hr := range_down b 0
    have hr0 : ((0 : Nat) : Int) - 1 = -1 := by omega
    rw [hr0] at hr
    have hn : ∀ minor : Nat, Gen.PySrc._version_nodot (PyVal.tuple [.int a, .int minor]) = .ok (.str (versionNodot [a, minor])) :=
      fun m => _version_nodot_eq_model [a, m]
    have ht : Gen.PySrc._version_nodot (.tuple [.int a, .int b]) = .ok (.str (versionNodot [a, b])) :=
      _version_nodot_eq_model [a, b]
    have hlen : cmp Cmp.gt (PyVal.int ↑((List.map ofNat rest).length + 1 + 1)) (PyVal.int 1) = .ok true := by
      simp [cmp, asInt, Cmp.onInt]; omega
    have hb : ((b : Int) - 1) = ((b : Int) - 1) := rfl
    simp only [ofVersion, List.map_cons, ofNat, len_tuple, List.length_cons, ok_bind, hlen, if_true,
      getslice_tuple_to _ 2, show (PyVal.int 2) = PyVal.int ((2 : Nat) : Int) from rfl, List.take, ht, format_str,
      getitem_tuple_zero, getitem_tuple_one, format_nat, sub_int, hr, iterate_iter, gt, pure_ok, truthy_bool]
    rw [forIn_append_ok _ _ _ (fun m => match m with
      | .int i => [PyVal.str (ofString "py" ++ versionNodot [a, i.toNat])] | _ => [])]
    · simp only [pure_ok, ok_bind, pyInterpreterRange, List.length_cons, List.take, List.getD_cons_zero, List.getD_cons_succ]
      have : (rest.length + 1 + 1 > 1) = True := by simp
      simp only [this, if_true, List.map_append, List.map_cons, List.map_nil, List.nil_append, List.flatMap_map]
      congr 2
      simp [sPy, ofString, List.flatMap_singleton', Function.comp_def, ofNat]
      induction Tags.rangeDown b 0 with
      | nil => rfl
      | cons x xs ih => simp [List.flatMap_cons, ih]
    · intro x hx s
      simp only [List.mem_map] at hx
      obtain ⟨m, _, rfl⟩ := hx
      simp [ofNat, hn m]

/-! ### version tuple comparison -/

theorem cmpSeq_lt_nats (a b : List Nat) : cmpSeq .lt (a.map ofNat) (b.map ofNat) = .ok (tupLt a b) := by
  induction a generalizing b with
  | nil => cases b <;> simp [cmpSeq, tupLt, Cmp.onLen]
  | cons x xs ih =>
    cases b with
    | nil => simp [cmpSeq, tupLt, Cmp.onLen]
    | cons y ys =>
      simp only [List.map_cons, cmpSeq, tupLt, ofNat, eq_int]
      by_cases h : x = y
      · subst h; simp [ih]
      · have h1 : ((x : Int) == (y : Int)) = false := by simp; omega
        have h2 : (x == y) = false := by simpa using h
        simp [h1, h2, cmp, asInt, Cmp.onInt]

theorem cmpSeq_ge_nats (a b : List Nat) : cmpSeq .ge (a.map ofNat) (b.map ofNat) = .ok (tupGe a b) := by
  simp only [tupGe]
  induction a generalizing b with
  | nil => cases b <;> simp [cmpSeq, tupLt, Cmp.onLen]
  | cons x xs ih =>
    cases b with
    | nil => simp [cmpSeq, tupLt, Cmp.onLen]
    | cons y ys =>
      simp only [List.map_cons, cmpSeq, tupLt, ofNat, eq_int]
      by_cases h : x = y
      · subst h; simp [ih]
      · have h1 : ((x : Int) == (y : Int)) = false := by simp; omega
        have h2 : (x == y) = false := by simpa using h
        simp [h1, h2, cmp, asInt, Cmp.onInt]
        by_cases hxy : x < y
        · have : ¬ y ≤ x := by omega
          simp [hxy, this]
        · have : y ≤ x := by omega
          simp [hxy, this]

theorem _abi3_applies_eq_model (v : List Nat) (t : Bool) :
    Gen.PySrc._abi3_applies (ofVersion v) (.bool t) = .ok (.bool (abi3Applies v t)) := by
  unfold Gen.PySrc._abi3_applies
  have h32 : (PyVal.tuple [PyVal.int 3, PyVal.int 2]) = .tuple ([3, 2].map ofNat) := rfl
  simp only [ofVersion, len_tuple, List.length_map, gt, ge, le, cmp, asInt, Cmp.onInt, pure_ok, ok_bind, tuple_tuple, h32,
    cmpSeq_ge_nats, truthy_bool, abi3Applies]
  by_cases h1 : v.length > 1
  · have h2 : ¬ ((v.length : Int) ≤ 1) := by omega
    have h3 : (1 : Int) < (v.length : Int) := by omega
    cases tupGe v [3, 2] <;> cases t <;> src_simp [h1, h2, h3, and_, or_]
  · have h2 : (v.length : Int) ≤ 1 := by omega
    have h3 : ¬ ((1 : Int) < (v.length : Int)) := by omega
    cases tupGe v [3, 2] <;> cases t <;> src_simp [h1, h2, h3, and_, or_]

theorem isInfix_single (s : Str) (c : Nat) : isInfix s [c] = s.contains c := by
  induction s with
  | nil => rfl
  | cons x xs ih =>
    simp only [isInfix, startsWith, ih, List.contains_cons]
    by_cases h : x = c
    · subst h; simp
    · have h1 : (x == c) = false := by simpa using h
      have h2 : (c == x) = false := by simpa using (fun e => h e.symm)
      simp [h1, h2]

theorem threaded_rx (a : Str) (rest : List Str) :
    isThreadedCpython (a :: rest) =
      match rx_cp_digits_rest a with
      | some [.str g] => hasChar 116 g
      | _ => false := by
  rcases a with _ | ⟨c1, _ | ⟨c2, r⟩⟩
  · rfl
  · simp [isThreadedCpython, rx_cp_digits_rest]
  · by_cases h1 : c1 = 99
    · by_cases h2 : c2 = 112
      · subst h1 h2
        simp only [isThreadedCpython, rx_cp_digits_rest]
        cases (spanDigits r).1.isEmpty <;> simp
      · simp [isThreadedCpython, rx_cp_digits_rest, h2]
    · simp [isThreadedCpython, rx_cp_digits_rest, h1]

theorem _is_threaded_cpython_eq_model (abis : List Str) :
    Gen.PySrc._is_threaded_cpython (ofStrs abis) = .ok (.bool (isThreadedCpython abis)) := by
  unfold Gen.PySrc._is_threaded_cpython
  cases abis with
  | nil => simp [ofStrs, isThreadedCpython]
  | cons a rest =>
    have h0 : PyVal.eq (PyVal.int ((PyVal.str a :: List.map PyVal.str rest).length : Nat)) (PyVal.int 0) = false := by
      simp [List.length_cons]; omega
    rw [threaded_rx]
    simp only [ofStrs, len_list, ok_bind, List.map_cons, h0, Bool.false_eq_true, if_false, getitem_list_zero, re_match,
      if_true, pure_ok, truthy_list, List.isEmpty_cons, Bool.not_false, Bool.not_true]
    cases hm : rx_cp_digits_rest a with
    | none => src_simp
    | some gs =>
      have : ∃ g, gs = [.str g] := by
        unfold rx_cp_digits_rest at hm
        split at hm
        · simp only at hm
          split at hm
          · simp at hm
          · simp at hm; exact ⟨_, hm.symm⟩
        · simp at hm
      obtain ⟨g, rfl⟩ := this
      src_simp [match_group, in_, contains, isInfix_single, hasChar, ofString, truthy, and_,
        show ∀ c f, isNone (PyVal.obj c f) = false from fun _ _ => rfl]

/-! ### `Tag`, the environment, `compatible_tags` -/

theorem Tag.__init___translated : Gen.PySrc.Tag.__init___supported = true := rfl
theorem compatible_tags_translated : Gen.PySrc.compatible_tags_supported = true := rfl

/-- a `Tag` object; `_hash` is the run-time's constant stand-in for `hash((…))` -/
def ofTag (t : Tags.Tag) : PyVal :=
  .obj "Tag" [("_interpreter", .str t.interp), ("_abi", .str t.abi), ("_platform", .str t.plat), ("_hash", .int 0)]

theorem Tag.__init___eq_model (i a p : Str) :
    Gen.PySrc.Tag.__init__ (.obj "Tag" []) (.str i) (.str a) (.str p) = .ok (ofTag (mkTag i a p)) := by
  simp [Gen.PySrc.Tag.__init__, setattr, setField, str_lower, hash_, ofTag, mkTag]

def ofCV : CV → PyVal
  | .none => .none
  | .int n => .int n
  | .str s => .str s

/-- the probes of `Tags.Cfg` as the environment table the translated functions read -/
def envOfCfg (cfg : Cfg) : Env :=
  [("sys.version_info", .tuple (cfg.sysVersion.map ofNat)),
   ("platform_tags", .list [.tuple [.tuple [], .iter (cfg.detected.map .str)]]),
   ("sysconfig.get_config_var", .list [
      .tuple [.tuple [.str (ofString "Py_DEBUG")], ofCV cfg.pyDebug],
      .tuple [.tuple [.str (ofString "Py_GIL_DISABLED")], ofCV cfg.gilDisabled],
      .tuple [.tuple [.str (ofString "WITH_PYMALLOC")], ofCV cfg.withPymalloc],
      .tuple [.tuple [.str (ofString "Py_UNICODE_SIZE")], ofCV cfg.unicodeSize],
      .tuple [.tuple [.str (ofString "py_version_nodot")], ofCV cfg.pyVersionNodot],
      .tuple [.tuple [.str (ofString "EXT_SUFFIX")], ofCV cfg.extSuffix]]),
   ("hasattr(sys,gettotalrefcount)", .bool cfg.hasRefcount),
   ("EXTENSION_SUFFIXES", .list (if cfg.hasDebugExt then [.str sDebugExt] else [])),
   ("sys.maxunicode", .int (if cfg.maxUnicodeWide then 1114111 else 65535)),
   ("sys.implementation.name", .str cfg.implName)]

def ofOptVersion : Option (List Nat) → PyVal
  | none => .none
  | some v => ofVersion v
def ofOptStrs : Option (List Str) → PyVal
  | none => .none
  | some l => ofStrs l

theorem version_default (cfg : Cfg) (ver : Option (List Nat)) (hs : cfg.sysVersion.length ≤ 2) :
    (do if !(PyRt.truthy (ofOptVersion ver)) then
          PyRt.getslice (← PyRt.env_get (envOfCfg cfg) "sys.version_info") PyVal.none (PyVal.int 2)
        else pure (ofOptVersion ver)) = .ok (ofVersion (versionOrDefault cfg ver)) := by
  rcases ver with _ | _ | ⟨a, r⟩
  · simp [ofOptVersion, env_get, envOfCfg, versionOrDefault, ofVersion,
      show (PyVal.int 2) = PyVal.int ((2 : Nat) : Int) from rfl, getslice_tuple_to, List.take_of_length_le, hs]
  · simp [ofOptVersion, env_get, envOfCfg, versionOrDefault, ofVersion,
      show (PyVal.int 2) = PyVal.int ((2 : Nat) : Int) from rfl, getslice_tuple_to, List.take_of_length_le, hs]
  · simp [ofOptVersion, versionOrDefault, ofVersion]

theorem platforms_default (cfg : Cfg) (plats : Option (List Str)) :
    (do PyRt.list_ (← (do if PyRt.isNone (ofOptStrs plats) then (do PyRt.env_call (envOfCfg cfg) "platform_tags" [])
                          else (pure (ofOptStrs plats))))) = .ok (ofStrs (platformsOrDefault cfg plats)) := by
  cases plats with
  | none => simp [ofOptStrs, env_call, env_get, envOfCfg, env_call.find, platformsOrDefault, ofStrs, PyVal.eq, eqList]
  | some l => simp [ofOptStrs, ofStrs, platformsOrDefault]

theorem tags_over_platforms (f : PyVal → M PyVal) (g : Str → Tags.Tag) (plats : List Str) (init : List PyVal)
    (h : ∀ p, f (.str p) = .ok (ofTag (g p))) :
    forIn (plats.map PyVal.str) init (fun platform_ __s => do
        let t ← f platform_
        pure (ForInStep.yield (__s ++ [t]))) = .ok (init ++ plats.map (fun p => ofTag (g p))) := by
  rw [forIn_append_ok _ _ _ (fun x => match x with | .str p => [ofTag (g p)] | _ => [])]
  · simp [List.flatMap_map]
    induction plats with
    | nil => rfl
    | cons a as ih => simp [List.flatMap_cons, ih]
  · intro x hx s
    simp only [List.mem_map] at hx
    obtain ⟨p, _, rfl⟩ := hx
    simp [h p]

theorem version_default_jp {α} (cfg : Cfg) (ver : Option (List Nat)) (hs : cfg.sysVersion.length ≤ 2) (jp : PyVal → M α) :
    (if (!truthy (ofOptVersion ver)) = true then do
        let x ← env_get (envOfCfg cfg) "sys.version_info"
        let y ← getslice x PyVal.none (PyVal.int 2)
        jp y
      else jp (ofOptVersion ver)) = jp (ofVersion (versionOrDefault cfg ver)) := by
  rcases ver with _ | _ | ⟨a, r⟩
  · simp [ofOptVersion, env_get, envOfCfg, versionOrDefault, ofVersion,
      show (PyVal.int 2) = PyVal.int ((2 : Nat) : Int) from rfl, getslice_tuple_to, List.take_of_length_le, hs]
  · simp [ofOptVersion, env_get, envOfCfg, versionOrDefault, ofVersion,
      show (PyVal.int 2) = PyVal.int ((2 : Nat) : Int) from rfl, getslice_tuple_to, List.take_of_length_le, hs]
  · simp [ofOptVersion, versionOrDefault, ofVersion]

theorem platforms_default_jp {α} (cfg : Cfg) (plats : Option (List Str)) (jp : PyVal → M α) :
    (do let x ← (if isNone (ofOptStrs plats) = true then env_call (envOfCfg cfg) "platform_tags" [] else pure (ofOptStrs plats))
        let y ← list_ x
        jp y) = jp (ofStrs (platformsOrDefault cfg plats)) := by
  cases plats with
  | none => simp [ofOptStrs, env_call, env_get, envOfCfg, env_call.find, platformsOrDefault, ofStrs, PyVal.eq, eqList]
  | some l => simp [ofOptStrs, ofStrs, platformsOrDefault]

/-- `compatible_tags(python_version, interpreter, platforms)`; `sys.version_info[:2]` and `platform_tags()` come
from the environment -/
theorem compatible_tags_eq_model (cfg : Cfg) (ver : Option (List Nat)) (interp : Option Str) (plats : Option (List Str))
    (hs : cfg.sysVersion.length ≤ 2) (hv : versionOrDefault cfg ver ≠ []) :
    Gen.PySrc.compatible_tags (envOfCfg cfg) (ofOptVersion ver) (ofOptStr interp) (ofOptStrs plats) =
      .ok (.iter ((compatibleTags cfg ver interp plats).map ofTag)) := by
  unfold Gen.PySrc.compatible_tags
  simp only [version_default_jp cfg ver hs, platforms_default_jp cfg plats,
    _py_interpreter_range_eq_model _ hv, ok_bind, iterate_iter, ofStrs, iterate_list]
  -- the three loops
  have inner : ∀ (v : Str) (init : List PyVal),
      forIn (List.map PyVal.str (platformsOrDefault cfg plats)) init (fun platform_ __s => do
        let t ← Gen.PySrc.Tag.__init__ (PyVal.obj "Tag" []) (.str v) (PyVal.str (ofString "none")) platform_
        pure (ForInStep.yield (__s ++ [t])))
      = .ok (init ++ (platformsOrDefault cfg plats).map (fun p => ofTag (mkTag v sNone p))) := by
    intro v init
    exact tags_over_platforms _ (fun p => mkTag v sNone p) _ init (fun p => Tag.__init___eq_model v _ p)
  have outer : ∀ init : List PyVal,
      forIn (List.map PyVal.str (pyInterpreterRange (versionOrDefault cfg ver))) init (fun version __s => do
        let __s ← forIn (List.map PyVal.str (platformsOrDefault cfg plats)) __s (fun platform_ __s => do
          let t ← Gen.PySrc.Tag.__init__ (PyVal.obj "Tag" []) version (PyVal.str (ofString "none")) platform_
          pure (ForInStep.yield (__s ++ [t])))
        pure (ForInStep.yield __s))
      = .ok (init ++ (pyInterpreterRange (versionOrDefault cfg ver)).flatMap fun v =>
          (platformsOrDefault cfg plats).map (fun p => ofTag (mkTag v sNone p))) := by
    intro init
    rw [forIn_append_ok _ _ _ (fun x => match x with
      | .str v => (platformsOrDefault cfg plats).map (fun p => ofTag (mkTag v sNone p)) | _ => [])]
    · simp [List.flatMap_map]
    · intro x hx s
      simp only [List.mem_map] at hx
      obtain ⟨v, _, rfl⟩ := hx
      rw [inner]; rfl
  have last : ∀ init : List PyVal,
      forIn (List.map PyVal.str (pyInterpreterRange (versionOrDefault cfg ver))) init (fun version __s => do
        let t ← Gen.PySrc.Tag.__init__ (PyVal.obj "Tag" []) version (PyVal.str (ofString "none")) (PyVal.str (ofString "any"))
        pure (ForInStep.yield (__s ++ [t])))
      = .ok (init ++ (pyInterpreterRange (versionOrDefault cfg ver)).map (fun v => ofTag (mkTag v sNone sAny))) := by
    intro init
    exact tags_over_platforms (fun v => Gen.PySrc.Tag.__init__ (PyVal.obj "Tag" []) v (PyVal.str (ofString "none")) (PyVal.str (ofString "any")))
      (fun v => mkTag v sNone sAny) _ init (fun v => Tag.__init___eq_model v _ _)
  rw [outer]
  simp only [ok_bind, List.nil_append]
  rcases interp with _ | _ | ⟨c, cs⟩
  · simp only [ofOptStr, truthy_none, Bool.false_eq_true, if_false]
    rw [last]
    simp [compatibleTags, List.map_append, List.map_flatMap, List.map_map, Function.comp_def]
  · simp only [ofOptStr, truthy_str, List.isEmpty_nil, Bool.not_true, Bool.false_eq_true, if_false]
    rw [last]
    simp [compatibleTags, List.map_append, List.map_flatMap, List.map_map, Function.comp_def]
  · simp only [ofOptStr, truthy_str, List.isEmpty_cons, Bool.not_false, if_true, Tag.__init___eq_model (c :: cs) _ _,
      ok_bind]
    rw [last]
    simp [compatibleTags, List.map_append, List.map_flatMap, List.map_map, Function.comp_def, sNone, sAny, ofString]

/-! ### `_get_config_var`, `_cpython_abis`, `cpython_tags` -/

theorem _get_config_var_translated : Gen.PySrc._get_config_var_supported = true := rfl
theorem _cpython_abis_translated : Gen.PySrc._cpython_abis_supported = true := rfl
theorem cpython_tags_translated : Gen.PySrc.cpython_tags_supported = true := rfl

/-- the configuration variables the tag generators ask for -/
inductive CfgVar | pyDebug | gilDisabled | withPymalloc | unicodeSize | pyVersionNodot | extSuffix

def CfgVar.name : CfgVar → Str
  | .pyDebug => ofString "Py_DEBUG" | .gilDisabled => ofString "Py_GIL_DISABLED"
  | .withPymalloc => ofString "WITH_PYMALLOC" | .unicodeSize => ofString "Py_UNICODE_SIZE"
  | .pyVersionNodot => ofString "py_version_nodot" | .extSuffix => ofString "EXT_SUFFIX"
def CfgVar.get (cfg : Cfg) : CfgVar → CV
  | .pyDebug => cfg.pyDebug | .gilDisabled => cfg.gilDisabled
  | .withPymalloc => cfg.withPymalloc | .unicodeSize => cfg.unicodeSize
  | .pyVersionNodot => cfg.pyVersionNodot | .extSuffix => cfg.extSuffix

theorem _get_config_var_eq_model (cfg : Cfg) (x : CfgVar) (warn : PyVal) :
    Gen.PySrc._get_config_var (envOfCfg cfg) (.str x.name) warn = .ok (ofCV (x.get cfg)) := by
  unfold Gen.PySrc._get_config_var
  cases x <;>
    simp [env_call, env_get, envOfCfg, env_call.find, PyVal.eq, eqList, CfgVar.name, CfgVar.get, ofString] <;>
    split <;> rfl

theorem cmp_tuple_lt (a b : List Nat) : cmp .lt (ofVersion a) (ofVersion b) = .ok (tupLt a b) := by
  simp [ofVersion, cmp, cmpSeq_lt_nats]
theorem cmp_tuple_ge (a b : List Nat) : cmp .ge (ofVersion a) (ofVersion b) = .ok (tupGe a b) := by
  simp [ofVersion, cmp, cmpSeq_ge_nats]

theorem truthy_ofCV (c : CV) : truthy (ofCV c) = c.truthy := by
  cases c <;> simp [ofCV, CV.truthy]
  rename_i n; cases n <;> simp; omega
theorem isNone_ofCV (c : CV) : isNone (ofCV c) = c.isNone := by
  cases c <;> rfl

theorem _cpython_abis_eq_model (cfg : Cfg) (ver : List Nat) (warn : PyVal) :
    Gen.PySrc._cpython_abis (envOfCfg cfg) (ofVersion ver) warn = .ok (ofStrs (cpythonAbis cfg ver)) := by
  unfold Gen.PySrc._cpython_abis
  have g1 := _get_config_var_eq_model cfg .pyDebug warn
  have g2 := _get_config_var_eq_model cfg .gilDisabled warn
  have g3 := _get_config_var_eq_model cfg .withPymalloc warn
  have g4 := _get_config_var_eq_model cfg .unicodeSize warn
  simp only [CfgVar.name, CfgVar.get] at g1 g2 g3 g4
  have h313 : (PyVal.tuple [PyVal.int 3, PyVal.int 13]) = ofVersion [3, 13] := rfl
  have h38 : (PyVal.tuple [PyVal.int 3, PyVal.int 8]) = ofVersion [3, 8] := rfl
  have h33 : (PyVal.tuple [PyVal.int 3, PyVal.int 3]) = ofVersion [3, 3] := rfl
  have hnd := _version_nodot_eq_model (ver.take 2)
  have hsl : getslice (ofVersion ver) PyVal.none (PyVal.int 2) = .ok (ofVersion (ver.take 2)) := by
    rw [ofVersion, show (PyVal.int 2) = PyVal.int ((2 : Nat) : Int) from rfl, getslice_tuple_to, ofVersion, List.map_take]
  have htup : tuple_ (ofVersion ver) = .ok (ofVersion ver) := rfl
  simp only [htup, ok_bind, hsl, hnd, g1, g2, g3, g4, h313, h38, h33, ge, cmp_tuple_ge, cmp_tuple_lt, pure_ok,
    truthy_ofCV, isNone_ofCV, truthy_bool]
  have e1 : env_get (envOfCfg cfg) "hasattr(sys,gettotalrefcount)" = .ok (.bool cfg.hasRefcount) := by rfl
  have e2 : env_get (envOfCfg cfg) "EXTENSION_SUFFIXES" = .ok (.list (if cfg.hasDebugExt then [.str sDebugExt] else [])) := by rfl
  have e3 : env_get (envOfCfg cfg) "sys.maxunicode" = .ok (.int (if cfg.maxUnicodeWide then 1114111 else 65535)) := by rfl
  have e4 : in_ (PyVal.str (ofString "_d.pyd")) (.list (if cfg.hasDebugExt then [.str sDebugExt] else [])) = .ok (.bool cfg.hasDebugExt) := by
    cases cfg.hasDebugExt <;> simp [in_, contains, sDebugExt, ofString]
  have e5 : (ofCV cfg.unicodeSize).eq (PyVal.int 4) = (cfg.unicodeSize == .int 4) := by
    cases h : cfg.unicodeSize with
    | none => rfl
    | str s => rfl
    | int n =>
      simp only [ofCV, eq_int]
      by_cases hn : n = 4
      · subst hn; rfl
      · have a : ((n : Int) == 4) = false := by simp; omega
        have b : (CV.int n == CV.int 4) = false := by simp [hn]
        rw [a, b]
  have e6 : (PyVal.int (if cfg.maxUnicodeWide then 1114111 else 65535)).eq (PyVal.int 1114111) = cfg.maxUnicodeWide := by
    cases cfg.maxUnicodeWide <;> simp
  simp only [e1, e2, e3, e4, e5, e6, ok_bind, truthy_bool, format_str, list_append_list, List.nil_append, PyRt.eq,
    PyRt.is_none, pure_ok, isNone_ofCV]
  clear g1 g2 g3 g4 hnd hsl htup e1 e2 e3 e4 e5 e6 h313 h38 h33
  have hins : ∀ (l : List PyVal) (x : PyVal), list_insert (.list l) (.int 0) x = .ok (.list (x :: l)) := by
    intro l x
    simp [list_insert, clampBound, asInt]
  unfold cpythonAbis
  simp only [hins]
  generalize (cfg.pyDebug.truthy || cfg.pyDebug.isNone && (cfg.hasRefcount || cfg.hasDebugExt)) = dB
  generalize (cfg.withPymalloc.truthy || cfg.withPymalloc.isNone) = pB
  generalize (cfg.unicodeSize == CV.int 4) = u1
  generalize cfg.unicodeSize.isNone = u2
  generalize cfg.maxUnicodeWide = u3
  generalize tupGe ver [3, 13] = a5
  generalize tupLt ver [3, 8] = a7
  generalize tupLt ver [3, 3] = a10
  have hg : truthy (ofCV cfg.gilDisabled) = cfg.gilDisabled.truthy := truthy_ofCV _
  generalize hgT : cfg.gilDisabled.truthy = gT at hg
  generalize versionNodot (List.take 2 ver) = vn
  cases dB <;> cases pB <;> cases u1 <;> cases u2 <;> cases u3 <;> cases a5 <;> cases a7 <;> cases a10 <;> cases gT <;>
    simp [hg, ofStrs, sCp, ofString]

/-! #### pieces of `cpython_tags` -/

theorem removeFirst_strs (x : Str) (l : List Str) :
    removeFirst (.str x) (l.map .str) = if x ∈ l then some ((l.erase x).map .str) else none := by
  induction l with
  | nil => rfl
  | cons a as ih =>
    simp only [List.map_cons, removeFirst, eq_str, ih, List.mem_cons, List.erase_cons]
    by_cases h : a = x
    · subst h; simp
    · have h1 : (a == x) = false := by simpa using h
      have h2 : ¬ x = a := fun e => h e.symm
      simp only [h1, Bool.false_eq_true, if_false, h2, false_or]
      by_cases hm : x ∈ as <;> simp [hm]

/-- `try: abis.remove(x) except ValueError: pass` -/
theorem remove_or_keep (x : Str) (l : List Str) :
    (MonadExcept.tryCatch
        (do let abis ← list_remove (.list (l.map .str)) (.str x); pure (⟨(), abis⟩ : Unit × PyVal))
        (fun __e1 => if catches "ValueError" __e1 = true then pure ⟨(), .list (l.map .str)⟩
          else do let __r ← (throw __e1 : M Unit); pure ⟨__r, .list (l.map .str)⟩))
      = .ok ⟨(), .list ((l.erase x).map .str)⟩ := by
  simp only [list_remove, removeFirst_strs]
  by_cases hm : x ∈ l
  · simp [hm]
  · have : l.erase x = l := List.erase_of_not_mem hm
    simp [hm, this, catches, valueError]

/-- what `abis` is once the default has been filled in -/
def abisOrDefault (cfg : Cfg) (v : List Nat) : Option (List Str) → List Str
  | some a => a
  | none => if v.length > 1 then cpythonAbis cfg v else []

theorem abis_default_jp {α} (cfg : Cfg) (v : List Nat) (abis : Option (List Str)) (warn : PyVal) (jp : PyVal → M α) :
    (if isNone (ofOptStrs abis) = true then do
        let n ← len (ofVersion v)
        let c ← cmp Cmp.gt n (PyVal.int 1)
        if c = true then do
          let a ← Gen.PySrc._cpython_abis (envOfCfg cfg) (ofVersion v) warn
          jp a
        else jp (PyVal.list [])
      else jp (ofOptStrs abis)) = jp (ofStrs (abisOrDefault cfg v abis)) := by
  cases abis with
  | some a => simp [ofOptStrs, ofStrs, abisOrDefault]
  | none =>
    by_cases h : v.length > 1
    · have : decide ((v.length : Int) > 1) = true := by simp; omega
      have hc : cmp Cmp.gt (PyVal.int (v.length : Nat)) (PyVal.int 1) = .ok true := by simp [cmp, asInt, Cmp.onInt, this]
      have hl : len (ofVersion v) = .ok (.int (v.length : Nat)) := by simp [ofVersion]
      simp only [ofOptStrs, isNone_none, if_true, hl, ok_bind, hc, _cpython_abis_eq_model, abisOrDefault, h]
    · have : decide ((v.length : Int) > 1) = false := by simp; omega
      have hc : cmp Cmp.gt (PyVal.int (v.length : Nat)) (PyVal.int 1) = .ok false := by simp [cmp, asInt, Cmp.onInt, this]
      have hl : len (ofVersion v) = .ok (.int (v.length : Nat)) := by simp [ofVersion]
      simp only [ofOptStrs, isNone_none, if_true, hl, ok_bind, hc, abisOrDefault, h, Bool.false_eq_true, if_false, ofStrs,
        List.map_nil]

/-- the inner loop of the "older minor versions" part: the loop state is `(version, __yield, interpreter)` -/
theorem abi3_inner (a : Nat) (rest : List Nat) (m : Nat) (plats : List Str) :
    ∀ s0 : PyVal × List PyVal × PyVal, ∃ x y,
    forIn (plats.map PyVal.str) s0 (fun platform_ __s => do
      let __do_lift ← getitem (ofVersion (a :: rest)) (PyVal.int 0)
      let version ← Gen.PySrc._version_nodot (PyVal.tuple [__do_lift, ofNat m])
      let __do_lift ← format version
      let t ← Gen.PySrc.Tag.__init__ (PyVal.obj "Tag" []) (PyVal.str (ofString "cp" ++ __do_lift))
                (PyVal.str (ofString "abi3")) platform_
      pure (ForInStep.yield (version, __s.snd.fst ++ [t], PyVal.str (ofString "cp" ++ __do_lift))))
    = (.ok (x, s0.2.1 ++ plats.map (fun p => ofTag (mkTag (sCp ++ versionNodot [a, m]) sAbi3 p)), y) : M _) := by
  induction plats with
  | nil => intro s0; exact ⟨s0.1, s0.2.2, by simp⟩
  | cons p ps ih =>
    intro s0
    have hn : Gen.PySrc._version_nodot (PyVal.tuple [PyVal.int a, ofNat m]) = .ok (.str (versionNodot [a, m])) :=
      _version_nodot_eq_model [a, m]
    simp only [List.map_cons, List.forIn_cons, ofVersion, ofNat, getitem_tuple_zero, ok_bind]
    simp only [ofNat] at hn
    simp only [hn, ok_bind, format_str, Tag.__init___eq_model, pure_ok]
    obtain ⟨x, y, h⟩ := ih (PyVal.str (versionNodot [a, m]),
      s0.2.1 ++ [ofTag (mkTag (ofString "cp" ++ versionNodot [a, m]) (ofString "abi3") p)],
      PyVal.str (ofString "cp" ++ versionNodot [a, m]))
    refine ⟨x, y, ?_⟩
    simp only [ofVersion, ofNat, List.map_cons, getitem_tuple_zero, ok_bind, hn, format_str, pure_ok] at h
    rw [h]
    simp [sCp, sAbi3, ofString]

theorem abi3_outer (a : Nat) (rest : List Nat) (plats : List Str) (minors : List Nat) :
    ∀ s0 : PyVal × List PyVal × PyVal, ∃ x y,
    forIn (minors.map ofNat) s0 (fun minor_version __s => do
      let __do_lift ← iterate (ofStrs plats)
      let __s ← forIn __do_lift (__s.fst, __s.snd.fst, __s.snd.snd) fun platform_ __s => do
        let __do_lift ← getitem (ofVersion (a :: rest)) (PyVal.int 0)
        let version ← Gen.PySrc._version_nodot (PyVal.tuple [__do_lift, minor_version])
        let __do_lift ← format version
        let t ← Gen.PySrc.Tag.__init__ (PyVal.obj "Tag" []) (PyVal.str (ofString "cp" ++ __do_lift))
                  (PyVal.str (ofString "abi3")) platform_
        pure (ForInStep.yield (version, __s.snd.fst ++ [t], PyVal.str (ofString "cp" ++ __do_lift)))
      pure (ForInStep.yield (__s.fst, __s.snd.fst, __s.snd.snd)))
    = (.ok (x, s0.2.1 ++ minors.flatMap (fun m => plats.map (fun p => ofTag (mkTag (sCp ++ versionNodot [a, m]) sAbi3 p))), y) : M _) := by
  induction minors with
  | nil => intro s0; exact ⟨s0.1, s0.2.2, by simp⟩
  | cons m ms ih =>
    intro s0
    obtain ⟨x1, y1, h1⟩ := abi3_inner a rest m plats (s0.1, s0.2.1, s0.2.2)
    simp only [List.map_cons, List.forIn_cons, ofStrs, iterate_list, ok_bind]
    rw [h1]
    simp only [ok_bind, pure_ok]
    obtain ⟨x, y, h⟩ := ih (x1, s0.2.1 ++ plats.map (fun p => ofTag (mkTag (sCp ++ versionNodot [a, m]) sAbi3 p)), y1)
    refine ⟨x, y, ?_⟩
    simp only [ofStrs, iterate_list, ok_bind, pure_ok] at h
    rw [h]
    simp [List.flatMap_cons, List.append_assoc]

theorem genexp_tags (f : PyVal → M PyVal) (g : Str → Tags.Tag) (plats : List Str)
    (h : ∀ p, f (.str p) = .ok (ofTag (g p))) :
    genexp f (ofStrs plats) = .ok (.iter (plats.map fun p => ofTag (g p))) := by
  rw [ofStrs, genexp_ok f (fun x => match x with | .str p => ofTag (g p) | _ => .none) _ _ (by rfl)]
  · simp [List.map_map, Function.comp_def]
  · intro x hx
    simp only [List.mem_map] at hx
    obtain ⟨p, _, rfl⟩ := hx
    exact h p

theorem contains_strs_mem (l : List Str) (x : Str) :
    PyRt.contains (.list (l.map .str)) (.str x) = .ok (decide (x ∈ l)) := by
  induction l with
  | nil => simp [contains_list_nil]
  | cons k ks ih =>
    rw [List.map_cons, contains_list_cons_str, ih]
    by_cases h : x = k <;> simp [h]

/-- `cpython_tags(python_version, abis, platforms, warn=…)`; the interpreter probes come from the environment -/
theorem cpython_tags_eq_model (cfg : Cfg) (ver : Option (List Nat)) (abis plats : Option (List Str)) (warn : PyVal)
    (hs : cfg.sysVersion.length ≤ 2) (hv : versionOrDefault cfg ver ≠ []) :
    Gen.PySrc.cpython_tags (envOfCfg cfg) (ofOptVersion ver) (ofOptStrs abis) (ofOptStrs plats) warn =
      .ok (.iter ((cpythonTags cfg ver abis plats).map ofTag)) := by
  first
  | (
      unfold Gen.PySrc.cpython_tags
      have hsl : getslice (ofVersion (versionOrDefault cfg ver)) PyVal.none (PyVal.int 2) = .ok (ofVersion ((versionOrDefault cfg ver).take 2)) := by
        rw [ofVersion, show (PyVal.int 2) = PyVal.int ((2 : Nat) : Int) from rfl, getslice_tuple_to, ofVersion, List.map_take]
      simp only [version_default_jp cfg ver hs]
      simp only [abis_default_jp cfg _ abis warn]
      simp only [platforms_default_jp cfg plats]
      generalize hV : versionOrDefault cfg ver = V at *
      generalize hP : platformsOrDefault cfg plats = P
      obtain ⟨a, rest, rfl⟩ : ∃ a rest, V = a :: rest := by
        cases V with
        | nil => exact absurd rfl hv
        | cons a rest => exact ⟨a, rest, rfl⟩
      -- the two removals
      have hrem : ∀ l : List Str,
          forIn [PyVal.str (ofString "abi3"), PyVal.str (ofString "none")] (PyVal.list (l.map .str)) (fun explicit_abi __s => do
            let p ← tryCatch (do let abis ← list_remove __s explicit_abi; pure (⟨(), abis⟩ : Unit × PyVal))
              (fun __e1 => if catches "ValueError" __e1 = true then pure ⟨(), __s⟩
                else do let __r ← (throw __e1 : M Unit); pure ⟨__r, __s⟩)
            pure (ForInStep.yield p.snd)) = .ok (.list (((l.erase sAbi3).erase sNone).map .str)) := by
        intro l
        simp only [List.forIn_cons, List.forIn_nil]
        rw [show ofString "abi3" = sAbi3 from rfl, show ofString "none" = sNone from rfl, remove_or_keep sAbi3 l]
        simp only [ok_bind, pure_bind]
        rw [remove_or_keep sNone]
        rfl
      simp only [hsl, ok_bind, _version_nodot_eq_model, format_str, ofStrs, list_list, iterate_tuple]
      erw [hrem]
      simp only [ok_bind, iterate_list]
      generalize hA : ((abisOrDefault cfg (a :: rest) abis).erase sAbi3).erase sNone = A
      generalize hI : ofString "cp" ++ versionNodot (List.take 2 (a :: rest)) = I
      -- the loop over abis x platforms
      have inner : ∀ (ab : Str) (init : List PyVal),
          forIn (List.map PyVal.str P) init (fun platform_ __s => do
            let t ← Gen.PySrc.Tag.__init__ (PyVal.obj "Tag" []) (.str I) (.str ab) platform_
            pure (ForInStep.yield (__s ++ [t])))
          = .ok (init ++ P.map (fun p => ofTag (mkTag I ab p))) := by
        intro ab init
        exact tags_over_platforms _ (fun p => mkTag I ab p) _ init (fun p => Tag.__init___eq_model I ab p)
      have outer :
          forIn (List.map PyVal.str A) ([] : List PyVal) (fun abi __s => do
            let __s ← forIn (List.map PyVal.str P) __s (fun platform_ __s => do
              let t ← Gen.PySrc.Tag.__init__ (PyVal.obj "Tag" []) (.str I) abi platform_
              pure (ForInStep.yield (__s ++ [t])))
            pure (ForInStep.yield __s))
          = .ok (A.flatMap fun ab => P.map (fun p => ofTag (mkTag I ab p))) := by
        rw [forIn_append_ok _ _ _ (fun x => match x with
          | .str ab => P.map (fun p => ofTag (mkTag I ab p)) | _ => [])]
        · simp [List.flatMap_map]
        · intro x hx s
          simp only [List.mem_map] at hx
          obtain ⟨ab, _, rfl⟩ := hx
          rw [inner]; rfl
      rw [outer]
      have hthr := _is_threaded_cpython_eq_model A
      simp only [ofStrs] at hthr
      simp only [ok_bind, hthr, _abi3_applies_eq_model, truthy_bool]
      have g3 := genexp_tags (fun platform_ => Gen.PySrc.Tag.__init__ (PyVal.obj "Tag" []) (.str I) (PyVal.str (ofString "abi3")) platform_)
        (fun p => mkTag I sAbi3 p) P (fun p => Tag.__init___eq_model I _ p)
      have gn := genexp_tags (fun platform_ => Gen.PySrc.Tag.__init__ (PyVal.obj "Tag" []) (.str I) (PyVal.str (ofString "none")) platform_)
        (fun p => mkTag I sNone p) P (fun p => Tag.__init___eq_model I _ p)
      simp only [ofStrs] at g3 gn
      simp only [g3, gn, ok_bind, iterate_iter]
      -- the model, with the same names
      have hm : cpythonTags cfg ver abis plats =
          (A.flatMap fun ab => P.map fun p => mkTag I ab p)
          ++ (if abi3Applies (a :: rest) (isThreadedCpython A) then P.map fun p => mkTag I sAbi3 p else [])
          ++ (P.map fun p => mkTag I sNone p)
          ++ (if abi3Applies (a :: rest) (isThreadedCpython A) then
                (Tags.rangeDown ((a :: rest).getD 1 0) 2).flatMap fun minor =>
                  P.map fun p => mkTag (sCp ++ versionNodot [(a :: rest).getD 0 0, minor]) sAbi3 p
              else []) := by
        simp only [cpythonTags, hV, hP, ← hA, ← hI, abisOrDefault]
        cases abis <;> rfl
      rw [hm]
      cases hab : abi3Applies (a :: rest) (isThreadedCpython A)
      · simp [List.map_append, List.map_flatMap, List.map_map, Function.comp_def]
      · simp only [if_true]
        obtain ⟨b, rest', rfl⟩ : ∃ b rest', rest = b :: rest' := by
          cases rest with
          | nil => simp [abi3Applies] at hab
          | cons b r => exact ⟨b, r, rfl⟩
        have hr := range_down b 2
        have h21 : ((2 : Nat) : Int) - 1 = 1 := by omega
        rw [h21] at hr
        simp only [ofVersion, List.map_cons, ofNat, getitem_tuple_one, ok_bind, sub_int, hr, iterate_iter]
        obtain ⟨x, y, hl⟩ := abi3_outer a (b :: rest') P (Tags.rangeDown b 2)
          (PyVal.unbound, List.flatMap (fun ab => List.map (fun p => ofTag (mkTag I ab p)) P) A ++
              List.map (fun p => ofTag (mkTag I sAbi3 p)) P ++ List.map (fun p => ofTag (mkTag I sNone p)) P, PyVal.str I)
        simp only [ofVersion, List.map_cons, ofNat, ofStrs, iterate_list, ok_bind] at hl
        rw [hl]
        simp [List.map_append, List.map_flatMap, List.map_map, Function.comp_def]

      done
    )
  | (
      unfold Gen.PySrc.cpython_tags
      have hsl : getslice (ofVersion (versionOrDefault cfg ver)) PyVal.none (PyVal.int 2) = .ok (ofVersion ((versionOrDefault cfg ver).take 2)) := by
        rw [ofVersion, show (PyVal.int 2) = PyVal.int ((2 : Nat) : Int) from rfl, getslice_tuple_to, ofVersion, List.map_take]
      simp only [version_default_jp cfg ver hs]
      simp only [abis_default_jp cfg _ abis warn]
      simp only [platforms_default_jp cfg plats]
      generalize hV : versionOrDefault cfg ver = V at *
      generalize hP : platformsOrDefault cfg plats = P
      obtain ⟨a, rest, rfl⟩ : ∃ a rest, V = a :: rest := by
        cases V with
        | nil => exact absurd rfl hv
        | cons a rest => exact ⟨a, rest, rfl⟩
      -- the two removals (`if x in abis: abis.remove(x)`)
      have hrem1 : ∀ (x : Str) (l : List Str),
          (do let c ← contains (PyVal.list (l.map .str)) (.str x)
              if c = true then do
                let abis ← list_remove (PyVal.list (l.map .str)) (.str x)
                pure (ForInStep.yield abis)
              else pure (ForInStep.yield (PyVal.list (l.map .str))) : M (ForInStep PyVal)) =
            .ok (.yield (.list ((l.erase x).map .str))) := by
        intro x l
        simp only [list_remove, removeFirst_strs, contains_strs_mem, pure_ok, ok_bind]
        by_cases hm : x ∈ l
        · simp [hm]
        · have : l.erase x = l := List.erase_of_not_mem hm
          simp [hm, this]
      have hrem : ∀ l : List Str,
          forIn [PyVal.str (ofString "abi3"), PyVal.str (ofString "none")] (PyVal.list (l.map .str)) (fun explicit_abi __s => do
            let __do_lift ← contains __s explicit_abi
            if __do_lift = true then do
                let abis ← list_remove __s explicit_abi
                pure (ForInStep.yield abis)
              else pure (ForInStep.yield __s)) = .ok (.list (((l.erase sAbi3).erase sNone).map .str)) := by
        intro l
        simp only [List.forIn_cons, List.forIn_nil]
        rw [show ofString "abi3" = sAbi3 from rfl, show ofString "none" = sNone from rfl, hrem1 sAbi3 l]
        simp only [ok_bind]
        rw [hrem1 sNone]
        rfl
      simp only [hsl, ok_bind, _version_nodot_eq_model, format_str, ofStrs, list_list, iterate_tuple]
      erw [hrem]
      simp only [ok_bind, iterate_list]
      generalize hA : ((abisOrDefault cfg (a :: rest) abis).erase sAbi3).erase sNone = A
      generalize hI : ofString "cp" ++ versionNodot (List.take 2 (a :: rest)) = I
      -- the loop over abis x platforms
      have inner : ∀ (ab : Str) (init : List PyVal),
          forIn (List.map PyVal.str P) init (fun platform_ __s => do
            let t ← Gen.PySrc.Tag.__init__ (PyVal.obj "Tag" []) (.str I) (.str ab) platform_
            pure (ForInStep.yield (__s ++ [t])))
          = .ok (init ++ P.map (fun p => ofTag (mkTag I ab p))) := by
        intro ab init
        exact tags_over_platforms _ (fun p => mkTag I ab p) _ init (fun p => Tag.__init___eq_model I ab p)
      have outer :
          forIn (List.map PyVal.str A) ([] : List PyVal) (fun abi __s => do
            let __s ← forIn (List.map PyVal.str P) __s (fun platform_ __s => do
              let t ← Gen.PySrc.Tag.__init__ (PyVal.obj "Tag" []) (.str I) abi platform_
              pure (ForInStep.yield (__s ++ [t])))
            pure (ForInStep.yield __s))
          = .ok (A.flatMap fun ab => P.map (fun p => ofTag (mkTag I ab p))) := by
        rw [forIn_append_ok _ _ _ (fun x => match x with
          | .str ab => P.map (fun p => ofTag (mkTag I ab p)) | _ => [])]
        · simp [List.flatMap_map]
        · intro x hx s
          simp only [List.mem_map] at hx
          obtain ⟨ab, _, rfl⟩ := hx
          rw [inner]; rfl
      rw [outer]
      have hthr := _is_threaded_cpython_eq_model A
      simp only [ofStrs] at hthr
      simp only [ok_bind, hthr, _abi3_applies_eq_model, truthy_bool]
      -- the single loops over the platforms: `for platform_ in platforms: yield Tag(interpreter, <abi>, platform_)`
      have one : ∀ (ab : Str) (init : List PyVal),
          forIn (List.map PyVal.str P) init (fun platform_ __s => do
            let t ← Gen.PySrc.Tag.__init__ (PyVal.obj "Tag" []) (.str I) (.str ab) platform_
            pure (ForInStep.yield (__s ++ [t])))
          = .ok (init ++ P.map (fun p => ofTag (mkTag I ab p))) := inner
      simp only [show ofString "abi3" = sAbi3 from rfl, show ofString "none" = sNone from rfl]
      -- the model, with the same names
      have hm : cpythonTags cfg ver abis plats =
          (A.flatMap fun ab => P.map fun p => mkTag I ab p)
          ++ (if abi3Applies (a :: rest) (isThreadedCpython A) then P.map fun p => mkTag I sAbi3 p else [])
          ++ (P.map fun p => mkTag I sNone p)
          ++ (if abi3Applies (a :: rest) (isThreadedCpython A) then
                (Tags.rangeDown ((a :: rest).getD 1 0) 2).flatMap fun minor =>
                  P.map fun p => mkTag (sCp ++ versionNodot [(a :: rest).getD 0 0, minor]) sAbi3 p
              else []) := by
        simp only [cpythonTags, hV, hP, ← hA, ← hI, abisOrDefault]
        cases abis <;> rfl
      rw [hm]
      cases hab : abi3Applies (a :: rest) (isThreadedCpython A)
      · simp only [Bool.false_eq_true, if_false, Bool.not_false, if_true]
        erw [one sNone]
        simp [List.map_append, List.map_flatMap, List.map_map, Function.comp_def]
      · simp only [if_true, Bool.not_true, Bool.false_eq_true, if_false]
        erw [one sAbi3]
        simp only [ok_bind]
        erw [one sNone]
        simp only [ok_bind]
        obtain ⟨b, rest', rfl⟩ : ∃ b rest', rest = b :: rest' := by
          cases rest with
          | nil => simp [abi3Applies] at hab
          | cons b r => exact ⟨b, r, rfl⟩
        have hr := range_down b 2
        have h21 : ((2 : Nat) : Int) - 1 = 1 := by omega
        rw [h21] at hr
        simp only [ofVersion, List.map_cons, ofNat, getitem_tuple_zero, getitem_tuple_one, ok_bind, sub_int, hr, iterate_iter]
        rw [forIn_pair_append_bind _ (fun x => match x with
          | .int m => P.map (fun p => ofTag (mkTag (sCp ++ versionNodot [a, m.toNat]) sAbi3 p)) | _ => []) _ _ ?hb ?hk]
        case hk => intro o acc; rfl
        case hb =>
          intro x hx o acc
          simp only [List.mem_map] at hx
          obtain ⟨m, _, rfl⟩ := hx
          have hn : Gen.PySrc._version_nodot (PyVal.tuple [PyVal.int a, ofNat m]) = .ok (.str (versionNodot [a, m])) :=
            _version_nodot_eq_model [a, m]
          simp only [hn, ok_bind, format_str]
          have := tags_over_platforms
            (fun platform_ => Gen.PySrc.Tag.__init__ (PyVal.obj "Tag" []) (.str (ofString "cp" ++ versionNodot [a, m])) (.str sAbi3) platform_)
            (fun p => mkTag (sCp ++ versionNodot [a, m]) sAbi3 p) P acc (fun p => Tag.__init___eq_model _ _ p)
          erw [this]
          exact ⟨PyVal.str (ofString "cp" ++ versionNodot [a, m]), by simp [ofNat]⟩
        simp [List.map_append, List.map_flatMap, List.map_map, Function.comp_def, List.flatMap_map, ofNat]
    )

end Src
