import PkgProofs.Props.Src.ElfEnv
import PkgProofs.Lemmas.PyElf
/-!
# Translated `_elffile.ELFFile.__init__` / `ELFFile.interpreter` = the model (`PkgModel/Elf.lean`, C16)

* `ELFFile.__init___eq_model`: on a file of bytes the translated constructor raises `ELFInvalid` exactly when `Elf.parse`
  is `none`, and otherwise leaves the instance `elfObj f pos h pfmt` for the header `h` the model computes; the format
  *strings* of the source dict are tied to the regenerated table `Gen.TagTables.elfFormats` by `initRows_lookup`
  (`PyElf.fmtSizes` of the strings = the table's byte order and field sizes, row by row).
* `ELFFile.interpreter_eq_model`: the translated property on such an instance is `ofInterp (Elf.interpreter f h)`.  The
  `for` loop (with `continue`, an early `return`, nested `try`) is handled by a loop lemma over an abstract body
  (`elfLoop_exists`) whose one-iteration specification `elfStepRes` is then established for the generated body.
* `ELFFile.init_interpreter_eq_model`: both, for every file the model accepts (`parse_idx`: the index hypothesis of the
  second theorem holds for every header `parse` returns).
-/
namespace Src
open PyRt Py Elf PyElf

theorem ELFFile.__init___translated : Gen.PySrc.ELFFile.__init___supported = true := rfl
theorem ELFFile.interpreter_translated : Gen.PySrc.ELFFile.interpreter_supported = true := rfl

/-- the layout dict of `ELFFile.__init__`, as the translator emits it -/
def initRows : List (PyVal × PyVal) :=
  [(PyVal.tuple [PyVal.int 1, PyVal.int 1],
      PyVal.tuple [PyVal.str (ofString "<HHIIIIIHHH"), PyVal.str (ofString "<IIIIIIII"),
        PyVal.tuple [PyVal.int 0, PyVal.int 1, PyVal.int 4]]),
    (PyVal.tuple [PyVal.int 1, PyVal.int 2],
      PyVal.tuple [PyVal.str (ofString ">HHIIIIIHHH"), PyVal.str (ofString ">IIIIIIII"),
        PyVal.tuple [PyVal.int 0, PyVal.int 1, PyVal.int 4]]),
    (PyVal.tuple [PyVal.int 2, PyVal.int 1],
      PyVal.tuple [PyVal.str (ofString "<HHIQQQIHHH"), PyVal.str (ofString "<IIQQQQQQ"),
        PyVal.tuple [PyVal.int 0, PyVal.int 2, PyVal.int 5]]),
    (PyVal.tuple [PyVal.int 2, PyVal.int 2],
      PyVal.tuple [PyVal.str (ofString ">HHIQQQIHHH"), PyVal.str (ofString ">IIQQQQQQ"),
        PyVal.tuple [PyVal.int 0, PyVal.int 2, PyVal.int 5]])]

theorem eq_pair_nat (a b : Int) (c e : Nat) :
    PyVal.eq (.tuple [.int a, .int b]) (.tuple [.int (c : Int), .int (e : Int)]) = (a == (c : Int) && b == (e : Int)) := by
  simp [PyVal.eq, eqList]

theorem initRows_lookup (c e : Nat) :
    match Gen.TagTables.elfFormats.lookup (c, e) with
    | none => PyPlat.gdict_getitem initRows none (.tuple [.int (c : Int), .int (e : Int)]) = .error "KeyError"
    | some (le, es, ps, idx) => ∃ efmt pfmt,
        PyPlat.gdict_getitem initRows none (.tuple [.int (c : Int), .int (e : Int)]) =
          .ok (.tuple [.str efmt, .str pfmt, .tuple [.int (idx.1 : Int), .int (idx.2.1 : Int), .int (idx.2.2 : Int)]]) ∧
        fmtSizes efmt = some (le, es) ∧ fmtSizes pfmt = some (le, ps) := by
  simp only [PyPlat.gdict_getitem, hashable, Bool.not_true, Bool.false_eq_true, if_false, initRows, dictLookup, eq_pair_nat]
  rcases c with _ | _ | _ | c <;> rcases e with _ | _ | _ | e
  all_goals first
    | (simp [Gen.TagTables.elfFormats, List.lookup, pair_beq]; done)
    | exact ⟨_, _, rfl, by decide, by decide⟩
    | (simp (disch := omega) [Gen.TagTables.elfFormats, List.lookup, pair_beq, if_neg]; done)
    | skip

/-- every row of the layout table: ten header fields, the three indexes address program-header fields -/
theorem elfFormats_rows (k : Nat × Nat) (le : Bool) (es ps : List Nat) (idx : Nat × Nat × Nat)
    (h : Gen.TagTables.elfFormats.lookup k = some (le, es, ps, idx)) :
    es.length = 10 ∧ idx.1 < ps.length ∧ idx.2.1 < ps.length ∧ idx.2.2 < ps.length := by
  have hm := mem_of_lookup _ _ _ h
  have hall : ∀ p ∈ Gen.TagTables.elfFormats,
      p.2.2.1.length = 10 ∧ p.2.2.2.2.1 < p.2.2.2.1.length ∧ p.2.2.2.2.2.1 < p.2.2.2.1.length ∧
        p.2.2.2.2.2.2 < p.2.2.2.1.length := by decide
  exact hall _ hm

theorem fmt16B : fmtSizes (ofString "16B") = some (true, List.replicate 16 1) := by decide

theorem ELFFile.__init___eq_model (f : Bytes) (hb : IsBytes f) :
    match parse f with
    | none => Gen.PySrc.ELFFile.__init__ (.obj "ELFFile" []) (fileOf f 0) = .error "ELFInvalid"
    | some h => ∃ pfmt pos, Gen.PySrc.ELFFile.__init__ (.obj "ELFFile" []) (fileOf f 0) = .ok (elfObj f pos h pfmt) ∧
        fmtSizes pfmt = some (h.le, h.pSizes) := by
  have hb' : ∀ x ∈ f, x < 256 := hb
  generalize hcode : Gen.PySrc.ELFFile.__init__ (.obj "ELFFile" []) (fileOf f 0) = r
  unfold Gen.PySrc.ELFFile.__init__ at hcode
  simp only [setattr_obj, setField, pure_ok, ok_bind, read_struct_obj _ _ f 0 _ _ _ hb' fmt16B, unpack_ones,
    sum_replicate_one] at hcode
  unfold parse
  simp only []
  have hbi : ∀ x ∈ readAt f 0 16, x < 256 := fun x hx => hb' x (mem_readAt _ _ _ _ hx)
  generalize readAt f 0 16 = ident at hcode hbi ⊢
  by_cases hlen' : ¬ ident.length = 16
  · subst hcode; simp [hlen', structError, catches]
  have hlen : ident.length = 16 := Decidable.not_not.mp hlen'
  have hbi4 : ∀ x ∈ ident.take 4, x < 256 := fun x hx => hbi x (List.mem_of_mem_take hx)
  have gs : getslice (.tuple (ints ident)) .none (.int 4) = .ok (.tuple (ints (ident.take 4))) := by
    have := getslice_tuple_to (ints ident) 4
    simpa [ints, List.map_take] using this
  have g4 : getitem (.tuple (ints ident)) (.int 4) = .ok (.int (ident.getD 4 0)) := getitem_ints ident 4 (by omega)
  have g5 : getitem (.tuple (ints ident)) (.int 5) = .ok (.int (ident.getD 5 0)) := getitem_ints ident 5 (by omega)
  simp only [hlen, if_true, tryCatch_ok', ok_bind, unpack2, iterate_tuple, pure_ok, stateT_pure_apply,
    gs, bytes_of_tuple_ints _ hbi4, eq_ofBytes, g4, g5] at hcode
  by_cases hm' : ¬ ident.take 4 = magic
  · subst hcode
    have : (ident.take 4 == [127, 69, 76, 70]) = false := by simpa [magic] using hm'
    simp [hlen, hm', this]
  have hm : ident.take 4 = magic := Decidable.not_not.mp hm'
  have hm2 : (ident.take 4 == [127, 69, 76, 70]) = true := by rw [hm]; rfl
  simp only [hm2, Bool.not_true, Bool.false_eq_true, if_false, setattr_obj, setField, ok_bind, getattr_obj,
    lookupField_cons, String.reduceBEq, if_true, lookupField_nil] at hcode
  simp only [hlen, hm, bne_self_eq_false, Bool.false_eq_true, if_false]
  generalize ident.getD 4 0 = cap at hcode ⊢
  generalize ident.getD 5 0 = enc at hcode ⊢
  have hrow := initRows_lookup cap enc
  simp only [initRows] at hrow
  cases hl : List.lookup (cap, enc) Gen.TagTables.elfFormats with
  | none =>
    rw [hl] at hrow
    simp only [] at hrow
    subst hcode
    simp [hrow, catches, bases]
  | some row =>
    obtain ⟨le, es, ps, idx⟩ := row
    rw [hl] at hrow
    obtain ⟨efmt, pfmt, hg, he, hp⟩ := hrow
    simp only [hg, ok_bind, unpack_n_tuple [_, _, _] 3 (by rfl), getitem_tuple_zero, getitem_tuple_one,
      getitem_tuple_two, tryCatch_ok', read_struct_obj _ _ f _ _ _ _ hb' he] at hcode
    simp only []
    cases hu : Elf.unpack le es (readAt f 16 es.sum) with
    | none =>
      subst hcode
      simp [hu, structError, catches]
    | some fields =>
      have hfl := unpack_length _ _ _ _ hu
      have hes : es.length = 10 := (elfFormats_rows _ _ _ _ _ hl).1
      rw [hes] at hfl
      have gi : ∀ i : Nat, i < 10 → getitem (.tuple (ints fields)) (.int (i : Int)) = .ok (.int (fields.getD i 0)) :=
        fun i hi => getitem_ints fields i (by omega)
      simp only [show 0 + 16 = 16 from rfl, hu, ok_bind, iterate_tuple,
        unpack_n_tuple (ints fields) 10 (by simp [hfl])] at hcode
      have g0 : getitem (.tuple (ints fields)) (.int 0) = .ok (.int (fields.getD 0 0)) := gi 0 (by omega)
      have g1 : getitem (.tuple (ints fields)) (.int 1) = .ok (.int (fields.getD 1 0)) := gi 1 (by omega)
      have g2 : getitem (.tuple (ints fields)) (.int 2) = .ok (.int (fields.getD 2 0)) := gi 2 (by omega)
      have g3 : getitem (.tuple (ints fields)) (.int 3) = .ok (.int (fields.getD 3 0)) := gi 3 (by omega)
      have g4 : getitem (.tuple (ints fields)) (.int 4) = .ok (.int (fields.getD 4 0)) := gi 4 (by omega)
      have g5 : getitem (.tuple (ints fields)) (.int 5) = .ok (.int (fields.getD 5 0)) := gi 5 (by omega)
      have g6 : getitem (.tuple (ints fields)) (.int 6) = .ok (.int (fields.getD 6 0)) := gi 6 (by omega)
      have g7 : getitem (.tuple (ints fields)) (.int 7) = .ok (.int (fields.getD 7 0)) := gi 7 (by omega)
      have g8 : getitem (.tuple (ints fields)) (.int 8) = .ok (.int (fields.getD 8 0)) := gi 8 (by omega)
      have g9 : getitem (.tuple (ints fields)) (.int 9) = .ok (.int (fields.getD 9 0)) := gi 9 (by omega)
      simp only [g0, g1, g2, g3, g4, g5, g6, g7, g8, g9, ok_bind, setattr_obj, setField, String.reduceBEq,
        Bool.false_eq_true, if_false, tryCatch_ok'] at hcode
      subst hcode
      exact ⟨pfmt, 16 + (readAt f 16 es.sum).length, rfl, hp⟩

/-! ## `ELFFile.interpreter` -/

/-- loop state of the translated `for`: (early-return value, `self`, `data`) -/
abbrev ElfLoopSt := Option PyVal × PyVal × PyVal

/-- one iteration of the loop of `ELFFile.interpreter` at program-header index `i` (the file position before the
iteration does not matter: the body `seek`s first) -/
def elfStepRes (f : Bytes) (h : Header) (pfmt : Str) (i : Nat) (d : PyVal) : M (ForInStep ElfLoopSt) :=
  let pos := h.phoff + h.phentsize * i
  if pos > ssizeMax then .error "OverflowError" else
  match Elf.unpack h.le h.pSizes (readAt f pos h.pSizes.sum) with
  | none => .ok (.yield (none, elfObj f pos h pfmt, d))
  | some data =>
    if data.getD h.pIdx.1 0 != 3 then
      .ok (.yield (none, elfObj f pos h pfmt, .tuple (ints data)))
    else if data.getD h.pIdx.2.1 0 > ssizeMax then .error "OverflowError"
    else if data.getD h.pIdx.2.2 0 > ssizeMax then .error "OverflowError"
    else
      let b := stripNul (readAt f (data.getD h.pIdx.2.1 0) (data.getD h.pIdx.2.2 0))
      if b.all (· < 128) then .ok (.done (some (.str b), elfObj f (data.getD h.pIdx.2.1 0) h pfmt, .tuple (ints data)))
      else .error "PyRtUnsupported"

/-- the state the loop ends in, for the model's answer -/
def elfOfLoop (f : Bytes) (h : Header) (pfmt : Str) : Except Unit (Option Bytes) → Nat → PyVal → M ElfLoopSt
  | .error _, _, _ => .error "OverflowError"
  | .ok none, p, d => .ok (none, elfObj f p h pfmt, d)
  | .ok (some b), p, d => if b.all (· < 128) then .ok (some (.str b), elfObj f p h pfmt, d) else .error "PyRtUnsupported"

theorem elfLoop_exists (f : Bytes) (h : Header) (pfmt : Str) (body : PyVal → ElfLoopSt → M (ForInStep ElfLoopSt))
    (hstep : ∀ (i p : Nat) (d : PyVal), body (.int (i : Int)) (none, elfObj f p h pfmt, d) = elfStepRes f h pfmt i d)
    (n i p : Nat) (d : PyVal) :
    ∃ p' d', forIn (natItems i n) (none, elfObj f p h pfmt, d) body = elfOfLoop f h pfmt (interpLoop f h n i) p' d' := by
  induction n generalizing i p d with
  | zero => exact ⟨p, d, rfl⟩
  | succ k ih =>
    simp only [natItems, List.forIn_cons, hstep, interpLoop, elfStepRes]
    by_cases hpos : h.phoff + h.phentsize * i > ssizeMax
    · simp only [hpos, if_true]; exact ⟨0, .none, rfl⟩
    · simp only [hpos, if_false]
      cases hu : Elf.unpack h.le h.pSizes (readAt f (h.phoff + h.phentsize * i) h.pSizes.sum) with
      | none => simp only [ok_bind]; exact ih _ _ _
      | some data =>
        simp only []
        by_cases h3 : (data.getD h.pIdx.1 0 != 3) = true
        · simp only [h3, if_true, ok_bind]; exact ih _ _ _
        · simp only [h3, if_false, Bool.false_eq_true]
          by_cases ho : data.getD h.pIdx.2.1 0 > ssizeMax
          · simp only [ho, if_true, decide_true, Bool.true_or, err_bind, elfOfLoop]; exact ⟨0, .none, trivial⟩
          · by_cases hs : data.getD h.pIdx.2.2 0 > ssizeMax
            · simp only [ho, hs, if_true, if_false, decide_true, decide_false, Bool.or_true, err_bind, elfOfLoop]
              exact ⟨0, .none, trivial⟩
            · simp only [ho, hs, if_false, decide_false, Bool.or_self, Bool.false_eq_true]
              by_cases ha : (stripNul (readAt f (data.getD h.pIdx.2.1 0) (data.getD h.pIdx.2.2 0))).all (· < 128) = true
              · simp only [ha, if_true, ok_bind, elfOfLoop]; exact ⟨_, _, rfl⟩
              · simp only [ha, if_false, Bool.false_eq_true, err_bind, elfOfLoop]; exact ⟨0, .none, trivial⟩

theorem ELFFile.interpreter_eq_model (f : Bytes) (hb : IsBytes f) (pos : Nat) (h : Header) (pfmt : Str)
    (hf : fmtSizes pfmt = some (h.le, h.pSizes))
    (hi : h.pIdx.1 < h.pSizes.length ∧ h.pIdx.2.1 < h.pSizes.length ∧ h.pIdx.2.2 < h.pSizes.length) :
    Gen.PySrc.ELFFile.interpreter (elfObj f pos h pfmt) = ofInterp (Elf.interpreter f h) := by
  have hb' : ∀ x ∈ f, x < 256 := hb
  have gnum : getattr (elfObj f pos h pfmt) "_e_phnum" = .ok (.int h.phnum) := by simp [elfObj]
  unfold Gen.PySrc.ELFFile.interpreter Elf.interpreter
  simp only [gnum, ok_bind, range1_nat, iterate_iter]
  generalize hB : (forIn (natItems 0 h.phnum) _ _ : M ElfLoopSt) = L
  obtain ⟨p', d', hL⟩ : ∃ p' d', L = elfOfLoop f h pfmt (interpLoop f h h.phnum 0) p' d' := by
    rw [← hB]
    apply elfLoop_exists
    intro i p d
    have hcast : (h.phoff : Int) + (h.phentsize : Int) * (i : Int) = ((h.phoff + h.phentsize * i : Nat) : Int) := by
      push_cast; rfl
    simp only [elfObj, getattr_obj, lookupField_cons, String.reduceBEq, Bool.false_eq_true, if_false, if_true, ok_bind,
      mul_int, add_int, hcast, seek_obj _ _ f _ _ hb', elfStepRes]
    by_cases hpos : h.phoff + h.phentsize * i > ssizeMax
    · simp only [hpos, if_true, err_bind]
    · simp only [hpos, if_false, ok_bind, getattr_obj, lookupField_cons, String.reduceBEq, Bool.false_eq_true, if_true,
        read_struct_obj _ _ f _ _ _ _ hb' hf]
      cases hu : Elf.unpack h.le h.pSizes (readAt f (h.phoff + h.phentsize * i) h.pSizes.sum) with
      | none =>
        simp only [err_bind, tryCatch_err', structError, show catches "error" "error" = true from by decide, if_true,
          cont_continue, ok_bind, pure_ok]
      | some data =>
        have hdl : data.length = h.pSizes.length := unpack_length _ _ _ _ hu
        have g1 := getitem_ints data h.pIdx.1 (by omega)
        have g2 := getitem_ints data h.pIdx.2.1 (by omega)
        have g3 := getitem_ints data h.pIdx.2.2 (by omega)
        have e3 : ∀ x : Nat, ((x : Int) == 3) = (x == 3) := by
          intro x; rw [Bool.eq_iff_iff, beq_iff_eq, beq_iff_eq]; omega
        simp only [ok_bind, getitem_tuple_zero, getitem_tuple_one, cont_run_pure, tryCatch_ok',
          g1, g2, eq_int, e3, Continue.runK, seek_obj _ _ f _ _ hb', bne]
        by_cases h3 : (data.getD h.pIdx.1 0 == 3) = true
        · simp only [h3, Bool.not_true, Bool.false_eq_true, if_false]
          by_cases ho : data.getD h.pIdx.2.1 0 > ssizeMax
          · simp only [ho, if_true, err_bind]
          · simp only [ho, if_false, ok_bind, getattr_obj, lookupField_cons, String.reduceBEq, Bool.false_eq_true, if_true,
              getitem_tuple_two, g3, read_obj _ _ f _ _ hb']
            by_cases hs : data.getD h.pIdx.2.2 0 > ssizeMax
            · simp only [hs, if_true, err_bind]
            · have hbr : ∀ x ∈ readAt f (data.getD h.pIdx.2.1 0) (data.getD h.pIdx.2.2 0), x < 256 :=
                fun x hx => hb' x (mem_readAt _ _ _ _ hx)
              simp only [hs, if_false, ok_bind, fsdecode_ofBytes _ hbr, all_ascii_stripNul]
              by_cases ha : (readAt f (data.getD h.pIdx.2.1 0) (data.getD h.pIdx.2.2 0)).all (· < 128) = true
              · simp only [ha, if_true, ok_bind, str_strip_nul, pure_ok]
              · simp only [ha, if_false, Bool.false_eq_true, err_bind]
        · simp only [h3, Bool.not_false, if_true, pure_ok]
  rw [hL]
  cases hr : interpLoop f h h.phnum 0 with
  | error u => 
    simp only [elfOfLoop, ofInterp, err_bind, tryCatch_err', show catches "OverflowError" "OverflowError" = true from by decide,
      Bool.true_or, if_true, throw_err]
  | ok o =>
    cases o with
    | none =>
      simp only [elfOfLoop, ofInterp, ok_bind, exceptT_stateT_pure, tryCatch_ok', pure_ok]
    | some b =>
      by_cases ha : b.all (· < 128) = true
      · simp only [elfOfLoop, ofInterp, ha, if_true, ok_bind, earlyReturn_eq, tryCatch_ok', pure_ok]
      · simp only [elfOfLoop, ofInterp, ha, if_false, Bool.false_eq_true, err_bind, tryCatch_err']
        have c : (catches "OverflowError" "PyRtUnsupported" || catches "OSError" "PyRtUnsupported" ||
            catches "ValueError" "PyRtUnsupported") = false := by decide
        simp only [c, Bool.false_eq_true, if_false, throw_err, err_bind]


/-! ## both together -/

/-- the layout `parse` stores comes from a row of the table: its three indexes address program-header fields -/
theorem parse_idx (f : Bytes) (h : Header) (hp : parse f = some h) :
    h.pIdx.1 < h.pSizes.length ∧ h.pIdx.2.1 < h.pSizes.length ∧ h.pIdx.2.2 < h.pSizes.length := by
  unfold parse at hp
  simp only [] at hp
  split at hp
  · cases hp
  split at hp
  · cases hp
  split at hp
  · cases hp
  rename_i le es ps idx hl
  split at hp
  · cases hp
  cases hp
  exact (elfFormats_rows _ _ _ _ _ hl).2

/-- `ELFFile(f).interpreter` for a file the model accepts -/
theorem ELFFile.init_interpreter_eq_model (f : Bytes) (hb : IsBytes f) (h : Header) (hp : parse f = some h) :
    ∃ o, Gen.PySrc.ELFFile.__init__ (.obj "ELFFile" []) (fileOf f 0) = .ok o ∧
      Gen.PySrc.ELFFile.interpreter o = ofInterp (Elf.interpreter f h) := by
  have h1 := ELFFile.__init___eq_model f hb
  rw [hp] at h1
  obtain ⟨pfmt, pos, ho, hf⟩ := h1
  exact ⟨_, ho, ELFFile.interpreter_eq_model f hb pos h pfmt hf (parse_idx f h hp)⟩

/-! ## non-vacuity: a 64-bit little-endian file with one `PT_INTERP` entry -/

def demoFile : Bytes :=
  -- e_ident rest, e_type, e_machine (x86-64), e_version, e_entry, e_phoff, e_shoff, e_flags, e_ehsize, e_phentsize, e_phnum
  encodeHeader ⟨true, true⟩ (EHeader.mk (List.replicate 10 0) 2 62 1 0 58 0 0 64 56 1)
  -- p_type = PT_INTERP, p_flags, p_offset, p_vaddr, p_paddr, p_filesz, p_memsz, p_align
  ++ encodePHeader ⟨true, true⟩ (PHeader.mk 3 4 114 0 0 9 9 1)
  -- "/lib/ld\0\0"
  ++ [47, 108, 105, 98, 47, 108, 100, 0, 0]

def demoHeader : Header :=
  { capacity := 2, encoding := 1, machine := 62, flags := 0, phoff := 58, phentsize := 56, phnum := 1, le := true,
    pSizes := [4, 4, 8, 8, 8, 8, 8, 8], pIdx := (0, 2, 5) }

theorem demo_isBytes : IsBytes demoFile := by
  show ∀ b ∈ demoFile, b < 256
  decide +kernel
theorem demo_parse : parse demoFile = some demoHeader := by decide +kernel
theorem demo_interp : Elf.interpreter demoFile demoHeader = .ok (some [47, 108, 105, 98, 47, 108, 100]) := by rfl

/-- the hypotheses of `ELFFile.interpreter_eq_model` hold for the demo header with the format string of the source -/
example : fmtSizes (ofString "<IIQQQQQQ") = some (demoHeader.le, demoHeader.pSizes) ∧
    demoHeader.pIdx.1 < demoHeader.pSizes.length ∧ demoHeader.pIdx.2.1 < demoHeader.pSizes.length ∧
    demoHeader.pIdx.2.2 < demoHeader.pSizes.length := by decide

/-- the translated code on the demo file: `ELFFile(f).interpreter == "/lib/ld"` -/
example : ∃ o, Gen.PySrc.ELFFile.__init__ (.obj "ELFFile" []) (fileOf demoFile 0) = .ok o ∧
    Gen.PySrc.ELFFile.interpreter o = .ok (.str (ofString "/lib/ld")) := by
  obtain ⟨o, h1, h2⟩ := ELFFile.init_interpreter_eq_model demoFile demo_isBytes demoHeader demo_parse
  refine ⟨o, h1, ?_⟩
  rw [h2, demo_interp]
  rfl

/-- a file the model rejects (too short): the translated `__init__` raises `ELFInvalid` -/
example : Gen.PySrc.ELFFile.__init__ (.obj "ELFFile" []) (fileOf [127, 69, 76, 70, 2, 1] 0) = .error "ELFInvalid" := by
  have h := ELFFile.__init___eq_model [127, 69, 76, 70, 2, 1] (by show ∀ b ∈ _, b < 256; decide)
  have hp : parse [127, 69, 76, 70, 2, 1] = none := by decide
  rw [hp] at h
  exact h

/-- a file with an unknown class byte: `KeyError` → `ELFInvalid` -/
example : Gen.PySrc.ELFFile.__init__ (.obj "ELFFile" []) (fileOf ([127, 69, 76, 70, 3, 1] ++ List.replicate 60 0) 0) =
    .error "ELFInvalid" := by
  have h := ELFFile.__init___eq_model ([127, 69, 76, 70, 3, 1] ++ List.replicate 60 0)
    (by show ∀ b ∈ _, b < 256; decide)
  have hp : parse ([127, 69, 76, 70, 3, 1] ++ List.replicate 60 0) = none := by decide
  rw [hp] at h
  exact h

end Src
