import PkgModel.Generated.PySrc
import PkgModel.Specifier
import PkgProofs.Lemmas.PyCmp
import PkgProofs.Lemmas.PyObj
import PkgProofs.Props.Src.VersionStr
import PkgProofs.Lemmas.SrcRobust
/-!
# Translated source of `Specifier._compare_*` = the model's `S.compare*` (`PkgModel/Specifier.lean`)

`Version(...)` is the run-time primitive `PyRt.mkVersion` (backed by `V.scan`); the rich comparisons of
`_BaseVersion` are translated and go through Python's generic tuple comparison of the `_key`s, which
`PyRt.cmp_key` / `eq_key` (`PkgProofs/Lemmas/PyCmp.lean`) identify with the model's `keyCmp` / `keyEq`.
-/
namespace Src
open PyRt Py V S

theorem compare_translated :
    (Gen.PySrc.Specifier._compare_less_than_supported && Gen.PySrc.Specifier._compare_greater_than_supported &&
     Gen.PySrc.Specifier._compare_less_than_equal_supported && Gen.PySrc.Specifier._compare_greater_than_equal_supported &&
     Gen.PySrc.Specifier._compare_arbitrary_supported && Gen.PySrc._BaseVersion.__lt___supported &&
     Gen.PySrc._BaseVersion.__le___supported && Gen.PySrc._BaseVersion.__gt___supported &&
     Gen.PySrc._BaseVersion.__ge___supported && Gen.PySrc._BaseVersion.__eq___supported &&
     Gen.PySrc.Version.is_postrelease_supported) = true := rfl

/-- the classes `isinstance(other, _BaseVersion)` accepts -/
def IsVersionCls (c : String) : Prop := c = "Version" ∨ c = "_TrimmedRelease" ∨ c = "_BaseVersion"

theorem isinstance_version (c : String) (h : IsVersionCls c) (v : Ver) :
    isinstance (ofVer c v) ["_BaseVersion", "Version", "_TrimmedRelease"] = true := by
  rcases h with rfl | rfl | rfl <;> simp [isinstance, className_ofVer]

theorem _BaseVersion.__lt___eq_model (c c' : String) (h : IsVersionCls c') (a b : Ver) :
    Gen.PySrc._BaseVersion.__lt__ (ofVer c a) (ofVer c' b) = .ok (.bool (a.lt b)) := by
  have := cmp_key .lt (cmpkey a) (cmpkey b)
  simp only [toCmp] at this
  simp [Gen.PySrc._BaseVersion.__lt__, isinstance_version c' h, lt, this, Ver.lt]

theorem _BaseVersion.__le___eq_model (c c' : String) (h : IsVersionCls c') (a b : Ver) :
    Gen.PySrc._BaseVersion.__le__ (ofVer c a) (ofVer c' b) = .ok (.bool (a.le b)) := by
  have := cmp_key .le (cmpkey a) (cmpkey b)
  simp only [toCmp] at this
  simp [Gen.PySrc._BaseVersion.__le__, isinstance_version c' h, le, this, Ver.le]

theorem _BaseVersion.__gt___eq_model (c c' : String) (h : IsVersionCls c') (a b : Ver) :
    Gen.PySrc._BaseVersion.__gt__ (ofVer c a) (ofVer c' b) = .ok (.bool (a.gt b)) := by
  have := cmp_key .gt (cmpkey a) (cmpkey b)
  simp only [toCmp] at this
  simp [Gen.PySrc._BaseVersion.__gt__, isinstance_version c' h, gt, this, Ver.gt]

theorem _BaseVersion.__ge___eq_model (c c' : String) (h : IsVersionCls c') (a b : Ver) :
    Gen.PySrc._BaseVersion.__ge__ (ofVer c a) (ofVer c' b) = .ok (.bool (a.ge b)) := by
  have := cmp_key .ge (cmpkey a) (cmpkey b)
  simp only [toCmp] at this
  simp [Gen.PySrc._BaseVersion.__ge__, isinstance_version c' h, ge, this, Ver.ge]

theorem _BaseVersion.__eq___eq_model (c c' : String) (h : IsVersionCls c') (a b : Ver) :
    Gen.PySrc._BaseVersion.__eq__ (ofVer c a) (ofVer c' b) = .ok (.bool (a.eq b)) := by
  simp [Gen.PySrc._BaseVersion.__eq__, isinstance_version c' h, PyRt.eq, eq_key, Ver.eq]

theorem Version.is_postrelease_eq_model (cls : String) (v : Ver) :
    Gen.PySrc.Version.is_postrelease (ofVer cls v) = .ok (.bool v.isPost) := by
  unfold Gen.PySrc.Version.is_postrelease
  simp only [Version.post_eq_model, ok_bind, pure_ok]
  cases hp : v.post <;> simp [Ver.isPost, hp, ofOptNat, is_not_none]

/-- `Version(s)` -/
theorem mkVersion_eq_model (s : Str) : mkVersion "Version" (.str s) = (S.version s).map (ofVer "Version") := by
  simp only [mkVersion, S.version]
  cases scan s <;> rfl

theorem view_version (v : Ver) : viewOf "Version" v = v := by simp [viewOf, releaseOf]

theorem versionCls : IsVersionCls "Version" := .inl rfl

/-- `Specifier._compare_less_than(prospective, spec_str)`.  Symbolic evaluation + a case split on every model-level test:
the proof does not depend on whether the pre-release exclusion is nested `if`s, one `and` chain or a named local. -/
theorem Specifier._compare_less_than_eq_model (self : PyVal) (p : Ver) (spec : Str) :
    Gen.PySrc.Specifier._compare_less_than self (ofVer "Version" p) (.str spec) = (S.compareLT p spec).map PyVal.bool := by
  unfold Gen.PySrc.Specifier._compare_less_than S.compareLT
  simp only [mkVersion_eq_model]
  cases hs : S.version spec with
  | error e => rfl
  | ok sv =>
    simp only [Except.map, ok_bind, _BaseVersion.__lt___eq_model _ _ versionCls, cmpResult, pure_ok, truthy_bool,
      Version.is_prerelease_eq_model, Version.base_version_eq_model, view_version, mkVersion_eq_model]
    cases h1 : p.lt sv <;> cases h2 : sv.isPre <;> cases h3 : p.isPre <;>
      cases hpb : S.version p.base <;> cases hsb : S.version sv.base <;>
      src_simp [_BaseVersion.__eq___eq_model _ _ versionCls, eqResult, bind, Except.bind, pure, Except.pure] <;>
      (try (repeat' split) <;> simp_all)

/-- `Specifier._compare_less_than_equal(prospective, spec)` -/
theorem Specifier._compare_less_than_equal_eq_model (self : PyVal) (p : Ver) (hp : WF p) (spec : Str) :
    Gen.PySrc.Specifier._compare_less_than_equal self (ofVer "Version" p) (.str spec) = (S.compareLE p spec).map PyVal.bool := by
  unfold Gen.PySrc.Specifier._compare_less_than_equal S.compareLE
  simp only [Version.public_eq_model p hp, ok_bind, mkVersion_eq_model]
  cases hpp : S.version p.public with
  | error e => rfl
  | ok pp =>
    cases hs : S.version spec with
    | error e => rfl
    | ok sv => simp [Except.map, _BaseVersion.__le___eq_model _ _ versionCls, cmpResult, bind, Except.bind]

/-- `Specifier._compare_greater_than_equal(prospective, spec)` -/
theorem Specifier._compare_greater_than_equal_eq_model (self : PyVal) (p : Ver) (hp : WF p) (spec : Str) :
    Gen.PySrc.Specifier._compare_greater_than_equal self (ofVer "Version" p) (.str spec) = (S.compareGE p spec).map PyVal.bool := by
  unfold Gen.PySrc.Specifier._compare_greater_than_equal S.compareGE
  simp only [Version.public_eq_model p hp, ok_bind, mkVersion_eq_model]
  cases hpp : S.version p.public with
  | error e => rfl
  | ok pp =>
    cases hs : S.version spec with
    | error e => rfl
    | ok sv => simp [Except.map, _BaseVersion.__ge___eq_model _ _ versionCls, cmpResult, bind, Except.bind]

theorem wf_loc {p : Ver} (hp : WF p) : p.loc ≠ some [] := by
  intro e; simp [WF, Ver.wf, e, locWF] at hp

/-- `Specifier._compare_arbitrary(prospective, spec)` -/
theorem Specifier._compare_arbitrary_eq_model (self : PyVal) (p : Ver) (hp : WF p) (spec : Str) :
    Gen.PySrc.Specifier._compare_arbitrary self (ofVer "Version" p) (.str spec) = (S.compareArbitrary p spec).map PyVal.bool := by
  unfold Gen.PySrc.Specifier._compare_arbitrary S.compareArbitrary
  simp [Version.__str___eq_model "Version" p (wf_loc hp), view_version, str_lower, PyRt.eq, Except.map, pure, Except.pure]

/-- `Specifier._compare_greater_than(prospective, spec_str)` (same style as `_compare_less_than`) -/
theorem Specifier._compare_greater_than_eq_model (self : PyVal) (p : Ver) (hp : WF p) (spec : Str) :
    Gen.PySrc.Specifier._compare_greater_than self (ofVer "Version" p) (.str spec) = (S.compareGT p spec).map PyVal.bool := by
  unfold Gen.PySrc.Specifier._compare_greater_than S.compareGT
  simp only [mkVersion_eq_model]
  cases hs : S.version spec with
  | error e => rfl
  | ok sv =>
    simp only [Except.map, ok_bind, _BaseVersion.__gt___eq_model _ _ versionCls, cmpResult, pure_ok, truthy_bool,
      Version.is_postrelease_eq_model, Version.base_version_eq_model, view_version, mkVersion_eq_model,
      Version.local_eq_model "Version" p (wf_loc hp), Version.public_eq_model p hp]
    cases h1 : p.gt sv <;> cases h2 : sv.isPost <;> cases h3 : p.isPost <;> cases hl : p.localStr <;>
      cases hpp : S.version p.public <;> cases hpb : S.version p.base <;> cases hsb : S.version sv.base <;>
      src_simp [ofOptStr, _BaseVersion.__eq___eq_model _ _ versionCls, eqResult, bind, Except.bind, pure, Except.pure] <;>
      (try (repeat' split) <;> simp_all)

end Src
