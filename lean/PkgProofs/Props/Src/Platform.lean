import PkgModel.Generated.PySrc
import PkgModel.Platform
import PkgProofs.Lemmas.PyFn
import PkgProofs.Props.Src.Tags
import PkgProofs.Lemmas.SrcRobust
/-!
# Translated source of platform-tag helpers = the model (`PkgModel/Platform.lean`, C16)

`tags._mac_arch`, `tags._mac_binary_formats`, `_manylinux._parse_glibc_version`, `_manylinux._glibc_version_string`
(the two probes `_glibc_version_string_confstr()` / `_glibc_version_string_ctypes()` are reads of the environment table).
The literal pattern of `_parse_glibc_version` is read by the translator from the source text and emitted as a list of
`PyRx.SeqItem`s (greedy class runs and literal characters, classes swept from the interpreter's regex parser).
-/
namespace Src
open PyRt PyRx Py Plat

theorem _mac_arch_translated : Gen.PySrc._mac_arch_supported = true := rfl
theorem _mac_binary_formats_translated : Gen.PySrc._mac_binary_formats_supported = true := rfl
theorem _parse_glibc_version_translated : Gen.PySrc._parse_glibc_version_supported = true := rfl
theorem _glibc_version_string_translated : Gen.PySrc._glibc_version_string_supported = true := rfl

theorem _mac_arch_eq_model (arch : Str) (is32 : Bool) :
    Gen.PySrc._mac_arch (.str arch) (.bool is32) = .ok (.str (macArch arch is32)) := by
  unfold Gen.PySrc._mac_arch macArch
  cases is32
  · simp
  · simp only [truthy_bool, Bool.not_true, Bool.false_eq_true, if_false, str_startswith, pure_ok, ok_bind,
      show ofString "ppc" = sPpc from rfl, show ofString "i386" = sI386 from rfl]
    cases startsWith arch sPpc <;> simp

/-! ### `_mac_binary_formats` -/

theorem cmpSeq_gt_nats (a b : List Nat) : cmpSeq .gt (a.map ofNat) (b.map ofNat) = .ok (Tags.tupLt b a) := by
  induction a generalizing b with
  | nil => cases b <;> simp [cmpSeq, Tags.tupLt, Cmp.onLen]
  | cons x xs ih =>
    cases b with
    | nil => simp [cmpSeq, Tags.tupLt, Cmp.onLen]
    | cons y ys =>
      simp only [List.map_cons, cmpSeq, Tags.tupLt, ofNat, eq_int]
      by_cases h : x = y
      · subst h; simp [ih]
      · have h1 : ((x : Int) == (y : Int)) = false := by simp; omega
        have h2 : (y == x) = false := by simpa using (fun e => h e.symm)
        simp [h1, h2, cmp, asInt, Cmp.onInt]

theorem cmp_tuple_gt (a b : List Nat) : cmp .gt (ofVersion a) (ofVersion b) = .ok (Tags.tupLt b a) := by
  simp [ofVersion, cmp, cmpSeq_gt_nats]

theorem _mac_binary_formats_eq_model (v : List Nat) (cpu : Str) :
    Gen.PySrc._mac_binary_formats (ofVersion v) (.str cpu) = .ok (ofStrs (macBinaryFormats v cpu)) := by
  unfold Gen.PySrc._mac_binary_formats macBinaryFormats
  have h104 : (PyVal.tuple [PyVal.int 10, PyVal.int 4]) = ofVersion [10, 4] := rfl
  have h105 : (PyVal.tuple [PyVal.int 10, PyVal.int 5]) = ofVersion [10, 5] := rfl
  have h106 : (PyVal.tuple [PyVal.int 10, PyVal.int 6]) = ofVersion [10, 6] := rfl
  simp only [h104, h105, h106, cmp_tuple_lt, cmp_tuple_gt, PyRt.gt, PyRt.lt, ok_bind, pure_ok, eq_str, truthy_bool, contains_set_str, contains,
    List.any_cons, List.any_nil, show ofString "x86_64" = sX86_64 from rfl, show ofString "i386" = sI386 from rfl,
    show ofString "ppc64" = sPpc64 from rfl, show ofString "ppc" = sPpc from rfl, show ofString "arm64" = sArm64 from rfl,
    show ofString "intel" = sIntel from rfl, show ofString "fat64" = sFat64 from rfl, show ofString "fat32" = sFat32 from rfl,
    show ofString "fat" = sFat from rfl, show ofString "universal2" = sUniversal2 from rfl,
    show ofString "universal" = sUniversal from rfl, list_extend_list_list, list_append_list, tLt]
  by_cases c1 : cpu = sX86_64
  · subst c1
    by_cases hv : Tags.tupLt v [10, 4] = true <;>
      simp [hv, ofStrs, sX86_64, sI386, sPpc64, sPpc, sArm64, sIntel]
  · by_cases c2 : cpu = sI386
    · subst c2
      by_cases hv : Tags.tupLt v [10, 4] = true <;>
        simp [hv, ofStrs, sX86_64, sI386, sPpc64, sPpc, sArm64, sIntel]
    · by_cases c3 : cpu = sPpc64
      · subst c3
        by_cases hv : Tags.tupLt v [10, 4] = true <;> by_cases hw : Tags.tupLt [10, 5] v = true <;>
          simp [hv, hw, ofStrs, sX86_64, sI386, sPpc64, sPpc, sArm64, sIntel]
      · by_cases c4 : cpu = sPpc
        · subst c4
          by_cases hv : Tags.tupLt [10, 6] v = true <;>
            simp [hv, ofStrs, sX86_64, sI386, sPpc64, sPpc, sArm64, sIntel]
        · have e1 : (cpu == sX86_64) = false := by simpa using c1
          have e2 : (cpu == sI386) = false := by simpa using c2
          have e3 : (cpu == sPpc64) = false := by simpa using c3
          have e4 : (cpu == sPpc) = false := by simpa using c4
          by_cases c5 : cpu = sArm64
          · subst c5; simp [ofStrs, sX86_64, sI386, sPpc64, sPpc, sArm64, sIntel]
          · by_cases c6 : cpu = sIntel
            · subst c6; simp [ofStrs, sX86_64, sI386, sPpc64, sPpc, sArm64, sIntel]
            · have e5 : (cpu == sArm64) = false := by simpa using c5
              have e6 : (cpu == sIntel) = false := by simpa using c6
              simp [e1, e2, e3, e4, e5, e6, ofStrs]

/-! ### `_parse_glibc_version` -/

theorem inRanges_digit (c : Nat) : inRanges [(48, 57)] c = isDigit c := by
  simp [inRanges, isDigit]

theorem takeWhile_digits (s : Str) : s.takeWhile (inRanges [(48, 57)]) = (spanDigits s).1 ∧
    s.dropWhile (inRanges [(48, 57)]) = (spanDigits s).2 := by
  induction s with
  | nil => exact ⟨rfl, rfl⟩
  | cons c cs ih =>
    simp only [List.takeWhile_cons, List.dropWhile_cons, inRanges_digit, spanDigits]
    cases isDigit c
    · exact ⟨rfl, rfl⟩
    · simp only [if_true]; exact ⟨by rw [ih.1], by rw [ih.2]⟩

theorem spanDigits_digits (s : Str) : ∀ c ∈ (spanDigits s).1, isDigit c = true := by
  induction s with
  | nil => intro c hc; simp [spanDigits] at hc
  | cons x xs ih =>
    intro c hc
    simp only [spanDigits] at hc
    by_cases hx : isDigit x = true
    · simp only [hx, if_true, List.mem_cons] at hc
      rcases hc with rfl | hc
      · exact hx
      · exact ih c hc
    · simp [hx] at hc

theorem int_ascii_digits (s : Str) (hne : s.isEmpty = false) (h : ∀ c ∈ s, isDigit c = true) :
    int_ (.str s) = .ok (.int (undec s)) := by
  have h1 : isDigitStr s = true := by
    simp only [isDigitStr, hne, Bool.not_false, Bool.true_and, List.all_eq_true]; exact h
  simp only [int_, parseInt, h1, if_true, pure_ok]

/-- `_parse_glibc_version(s)` for every string: the pair of the model (`(-1, -1)` when the text does not start with
`digits.digits`) -/
theorem _parse_glibc_version_eq_model (s : Str) :
    Gen.PySrc._parse_glibc_version (.str s) =
      .ok (.tuple [.int (parseGlibcVersion s).1, .int (parseGlibcVersion s).2]) := by
  unfold Gen.PySrc._parse_glibc_version parseGlibcVersion
  simp only [match_seq, matchSeq, (takeWhile_digits s).1, (takeWhile_digits s).2, pure_ok, ok_bind]
  cases ha : (spanDigits s).1.isEmpty
  · simp only [Bool.false_eq_true, if_false]
    rcases hr : (spanDigits s).2 with _ | ⟨c, rest⟩
    · simp [matchSeq]
    · by_cases hc : c = 46
      · subst hc
        simp only [matchSeq, beq_self_eq_true, if_true, (takeWhile_digits rest).1, (takeWhile_digits rest).2]
        cases hb : (spanDigits rest).1.isEmpty
        · simp [match_group, int_ascii_digits _ ha (spanDigits_digits s), int_ascii_digits _ hb (spanDigits_digits rest)]
        · simp
      · have : (c == 46) = false := by simpa using hc
        simp [matchSeq, this]
        split <;> simp_all
  · simp

/-! ### `_glibc_version_string` -/

/-- the two probes as an environment table: what `_glibc_version_string_confstr()` returns for the raw `os.confstr`
answer (the model's `glibcVersionStringConfstr`), and what the ctypes fallback returns -/
def glibcEnv (confstr ctypesVersion : Option Str) : Env :=
  [("_glibc_version_string_confstr", .list [.tuple [.tuple [], ofOptStr (glibcVersionStringConfstr confstr)]]),
   ("_glibc_version_string_ctypes", .list [.tuple [.tuple [], ofOptStr ctypesVersion]])]

theorem _glibc_version_string_eq_model (confstr ctypesVersion : Option Str) :
    Gen.PySrc._glibc_version_string (glibcEnv confstr ctypesVersion) =
      .ok (ofOptStr (glibcVersionString confstr ctypesVersion)) := by
  unfold Gen.PySrc._glibc_version_string glibcVersionString
  cases h : glibcVersionStringConfstr confstr with
  | none => simp [glibcEnv, env_call, env_get, env_call.find, PyVal.eq, eqList, h, ofOptStr]
  | some v => cases v <;> simp [glibcEnv, env_call, env_get, env_call.find, PyVal.eq, eqList, h, ofOptStr]

end Src
