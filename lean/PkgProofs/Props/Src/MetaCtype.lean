import PkgModel.Generated.PySrc
import PkgModel.PyMd
import PkgProofs.Props.Src.Metadata
/-!
# `_Validator._process_description_content_type` = `Meta.procContentType` (x6, C17)

The `EmailMessage` answers through the oracle (`PyMd.extOf6`, call `EmailMessage.set_content_type`), as `Meta.Oracle.ctype`
does in the model.
-/
namespace Src
open PyRt Py PyMeta PyMd

theorem _Validator._process_description_content_type_translated :
    Gen.PySrc._Validator._process_description_content_type_supported = true := rfl

theorem ext6_ctype (o : Meta.Oracle) (s : Str) :
    ext_call (extOf6 o) "EmailMessage.set_content_type" [.str s] = ofCT (o.ctype s) := by rfl

theorem ext6_lower (o : Meta.Oracle) (s : Str) :
    ext_call (extOf6 o) "str.lower" [.str s] = .ok (.str (o.lower s)) := by rfl

end Src

namespace Src
open PyRt Py PyMeta PyMd

theorem isInfix_bridge (hay needle : Str) : PyRt.isInfix hay needle = Meta.isInfix needle hay := by
  induction hay with
  | nil => rfl
  | cons c cs ih => simp [PyRt.isInfix, Meta.isInfix, ih]

theorem contains_ctypes (ct : Str) :
    PyRt.contains (.tuple [.str (ofString "text/plain"), .str (ofString "text/x-rst"), .str (ofString "text/markdown")]) (.str ct)
      = .ok (Meta.contentTypes.contains ct) := by
  simp only [PyRt.contains, Meta.contentTypes, PyVal.eq, List.any_cons, List.any_nil, List.contains, List.elem, pure_ok]
  cases (ct == ofString "text/plain") <;> cases (ct == ofString "text/x-rst") <;> cases (ct == ofString "text/markdown") <;> rfl

theorem contains_variants (v : Str) :
    PyRt.contains (.tuple [.str (ofString "GFM"), .str (ofString "CommonMark")]) (.str v)
      = .ok (Meta.markdownVariants.contains v) := by
  simp only [PyRt.contains, Meta.markdownVariants, PyVal.eq, List.any_cons, List.any_nil, List.contains, List.elem, pure_ok]
  cases (v == ofString "GFM") <;> cases (v == ofString "CommonMark") <;> rfl

theorem dict_get_charset (charset variant : Option Str) (d : Str) :
    dict_get (.dict (optEntry "charset" charset ++ optEntry "variant" variant)) (.str (ofString "charset")) (.str d)
      = .ok (.str (charset.getD d)) := by
  have h1 : (ofString "charset" == ofString "charset") = true := by decide
  have h2 : (ofString "variant" == ofString "charset") = false := by decide
  cases charset <;> cases variant <;> simp [optEntry, dict_get, hashable, dictLookup, PyVal.eq, h1, h2]

theorem dict_get_variant (charset variant : Option Str) (d : Str) :
    dict_get (.dict (optEntry "charset" charset ++ optEntry "variant" variant)) (.str (ofString "variant")) (.str d)
      = .ok (.str (variant.getD d)) := by
  have h1 : (ofString "variant" == ofString "variant") = true := by decide
  have h2 : (ofString "charset" == ofString "variant") = false := by decide
  cases charset <;> cases variant <;> simp [optEntry, dict_get, hashable, dictLookup, PyVal.eq, h1, h2]

theorem _Validator._process_description_content_type_eq_model (o : Meta.Oracle) (self : PyVal) (fld s : Str)
    (hesc : ∀ cls, o.ctype s = .esc cls →
      (catches "ValueError" (toStringLossy cls) || catches "IndexError" (toStringLossy cls)) = false) :
    Gen.PySrc._Validator._process_description_content_type (extOf6 o) self (.str s) =
      ofRes ofVal (Meta.procContentType o fld (.str s)) := by
  unfold Gen.PySrc._Validator._process_description_content_type Meta.procContentType
  simp only [ext6_ctype, ext6_lower]
  cases hv : o.ctype s with
  | bad =>
    have c1 : catches "ValueError" "ValueError" = true := by decide
    simp [ofCT, ofRes, excName, c1]
  | esc cls =>
    have := hesc cls hv
    simp only [Bool.or_eq_false_iff] at this
    simp [ofCT, ofRes, excName, this.1, this.2]
  | parsed ct charset variant =>
    have g0 : getitem (.tuple [.str ct, .dict (optEntry "charset" charset ++ optEntry "variant" variant)]) (.int 0) = .ok (.str ct) := by rfl
    have g1 : getitem (.tuple [.str ct, .dict (optEntry "charset" charset ++ optEntry "variant" variant)]) (.int 1)
        = .ok (.dict (optEntry "charset" charset ++ optEntry "variant" variant)) := by rfl
    have hc : PyRt.contains (.str (o.lower s)) (.str ct) = .ok (Meta.isInfix ct (o.lower s)) := by
      simp [PyRt.contains, isInfix_bridge]
    have hmd : PyRt.eq (.str ct) (.str (ofString "text/markdown")) = .bool (ct == ofString "text/markdown") := by
      simp [PyRt.eq, PyVal.eq]
    simp only [ofCT, MetaP.stateT_pure_apply, tryCatch_ok', tryCatch_ok, ok_bind, pure_ok, g0, g1, not_in, in_, contains_ctypes, contains_variants, hc, hmd,
      dict_get_charset, dict_get_variant, truthy_bool, Meta.ctypeOk, PyVal.eq]
    rcases Bool.eq_false_or_eq_true (Meta.contentTypes.contains ct) with h1 | h1 <;>
    rcases Bool.eq_false_or_eq_true (Meta.isInfix ct (o.lower s)) with h2 | h2 <;>
    rcases Bool.eq_false_or_eq_true (charset.getD (ofString "UTF-8") == ofString "UTF-8") with h3 | h3 <;>
    rcases Bool.eq_false_or_eq_true (ct == ofString "text/markdown") with h4 | h4 <;>
    rcases Bool.eq_false_or_eq_true (Meta.markdownVariants.contains (variant.getD (ofString "GFM"))) with h5 | h5 <;>
    simp only [h1, h2, h3, h4, h5, bne] <;>
    simp [ofRes, ofVal, excName, throw, throwThe, MonadExceptOf.throw]

end Src
