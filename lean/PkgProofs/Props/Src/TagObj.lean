import PkgModel.Generated.PySrc
import PkgModel.Filenames
import PkgProofs.Props.Src.Tags
/-!
# Translated source of `Tag.__str__`, `Tag.__eq__`, `Tag.__hash__` = the tag models
(`Tags.Tag` of C15 with structural equality, `Fn.Tag` of C14 with `Fn.Tag.eq` / `Fn.Tag.str`)
-/
namespace Src
open PyRt Py

theorem Tag.__str___translated : Gen.PySrc.Tag.__str___supported = true := rfl
theorem Tag.__eq___translated : Gen.PySrc.Tag.__eq___supported = true := rfl
theorem Tag.__hash___translated : Gen.PySrc.Tag.__hash___supported = true := rfl

/-- the `Tag` record of the filename model (`PkgModel/Filenames.lean`), same object layout as `ofTag` -/
def ofFnTag (t : Fn.Tag) : PyVal := ofTag ⟨t.i, t.a, t.p⟩

/-- `Tag.__str__` against the C15 tag triple -/
theorem Tag.__str___eq_model (t : Tags.Tag) :
    Gen.PySrc.Tag.__str__ (ofTag t) = .ok (.str (t.interp ++ [45] ++ t.abi ++ [45] ++ t.plat)) := by
  simp [Gen.PySrc.Tag.__str__, ofTag, ofString]

/-- `Tag.__str__` against `Fn.Tag.str` (C14) -/
theorem Tag.__str___eq_fn (t : Fn.Tag) : Gen.PySrc.Tag.__str__ (ofFnTag t) = .ok (.str t.str) := by
  simp [Gen.PySrc.Tag.__str__, ofFnTag, ofTag, ofString, Fn.Tag.str]

theorem isinstance_tag (t : Tags.Tag) : isinstance (ofTag t) ["Tag"] = true := by
  simp [isinstance, ofTag]

/-- `Tag.__eq__` on two tags is equality of the triples (C15's `Tag` has decidable equality) -/
theorem Tag.__eq___eq_model (t u : Tags.Tag) :
    Gen.PySrc.Tag.__eq__ (ofTag t) (ofTag u) = .ok (.bool (decide (t = u))) := by
  unfold Gen.PySrc.Tag.__eq__
  simp only [isinstance_tag, truthy_bool, Bool.not_true, Bool.false_eq_true, if_false]
  obtain ⟨ti, ta, tp⟩ := t
  obtain ⟨ui, ua, up⟩ := u
  simp only [ofTag, getattr_obj, lookupField_cons, lookupField_nil, ok_bind, pure_ok, PyRt.eq, PyRt.and_, eq_str, eq_int,
    truthy_bool, Tags.Tag.mk.injEq]
  by_cases h1 : tp = up <;> by_cases h2 : ta = ua <;> by_cases h3 : ti = ui <;> simp [h1, h2, h3]

/-- `Tag.__eq__` is the model's `Fn.Tag.eq` for the run-time's hash (the constant 0; any function of the key
gives the same answer, `C14.tag_eq_iff`) -/
theorem Tag.__eq___eq_fn (t u : Fn.Tag) :
    Gen.PySrc.Tag.__eq__ (ofFnTag t) (ofFnTag u) = .ok (.bool (Fn.Tag.eq (fun _ => 0) t u)) := by
  rw [ofFnTag, ofFnTag, Tag.__eq___eq_model]
  obtain ⟨ti, ta, tp⟩ := t
  obtain ⟨ui, ua, up⟩ := u
  simp only [Fn.Tag.eq, Fn.Tag.key, Tags.Tag.mk.injEq, beq_self_eq_true, Bool.true_and]
  by_cases h1 : tp = up <;> by_cases h2 : ta = ua <;> by_cases h3 : ti = ui <;> simp [h1, h2, h3]

/-- an operand that is not a `Tag`: `NotImplemented` -/
theorem Tag.__eq___other (self other : PyVal) (h : isinstance other ["Tag"] = false) :
    Gen.PySrc.Tag.__eq__ self other = .ok .notImpl := by
  simp [Gen.PySrc.Tag.__eq__, h]

/-- `Tag.__hash__` returns the stored hash; equal tags have equal hashes (set membership is consistent) -/
theorem Tag.__hash___eq_model (t : Tags.Tag) : Gen.PySrc.Tag.__hash__ (ofTag t) = .ok (.int 0) := by
  simp [Gen.PySrc.Tag.__hash__, ofTag]

theorem Tag.__hash___agrees (t u : Tags.Tag) (_h : Gen.PySrc.Tag.__eq__ (ofTag t) (ofTag u) = .ok (.bool true)) :
    Gen.PySrc.Tag.__hash__ (ofTag t) = Gen.PySrc.Tag.__hash__ (ofTag u) := by
  rw [Tag.__hash___eq_model, Tag.__hash___eq_model]

end Src
