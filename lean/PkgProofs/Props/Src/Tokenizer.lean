import PkgModel.Generated.PySrc
import PkgModel.PyX9
import PkgProofs.Lemmas.SrcRobust
/-!
# Translated source of the `Tokenizer` methods = the primitives of `PkgModel/PyTok.lean` (x9)

The recursive-descent functions of `_parser.py` are translated over the tokenizer primitives `PyTok.check/read/expect/consume/
raise_syntax_error/enclosing_open/enclosing_close`, and the `Agrees` theorems of `MarkerParse.lean` / `ReqParse.lean` are about
those.  Here the methods of `packaging._tokenizer.Tokenizer` themselves, regenerated from their source
(`Gen.PySrc.Tokenizer.*`; what stays primitive: the fields of the state and the match of one regenerated rule at the current
position, `PyX9.rule_match`), are proved equal to these primitives — as state-monad actions, for every argument and every state.
`check` needs a hashable name (a `str` is; for an unhashable one `name in self.rules` is `TypeError`, the primitive says
`AssertionError`), `read` a state in which the loaded token's text is what was matched (`PyX9.WF`: every reachable state, see
`wf_new`, `wf_preserved`).
-/
set_option linter.unusedSimpArgs false
namespace Src
open PyRt Py PyTok

theorem Tokenizer.check_translated : Gen.PySrc.Tokenizer.check_supported = true := rfl
theorem Tokenizer.read_translated : Gen.PySrc.Tokenizer.read_supported = true := rfl
theorem Tokenizer.expect_translated : Gen.PySrc.Tokenizer.expect_supported = true := rfl
theorem Tokenizer.consume_translated : Gen.PySrc.Tokenizer.consume_supported = true := rfl
theorem Tokenizer.raise_syntax_error_translated : Gen.PySrc.Tokenizer.raise_syntax_error_supported = true := rfl
theorem Tokenizer.enclosing_tokens__enter_translated : Gen.PySrc.Tokenizer.enclosing_tokens__enter_supported = true := rfl
theorem Tokenizer.enclosing_tokens__exit_translated : Gen.PySrc.Tokenizer.enclosing_tokens__exit_supported = true := rfl

/-! ## what the field primitives of `PyX9` compute on a state (about the hand-written run-time, not about generated text)

The `_eq_model` proofs below unfold only the generated method and the `PyTok` primitive it is compared with, split on the
model-level scrutinees (`st.next`, `name`, `ruleOf n`, `matchAny …`, `truthy peek`, `isNone opened`, the result of the
callee `PyTok.check … |>.run st` / `PyTok.read.run st'`, which are *not* unfolded) and evaluate each case with `tok_simp`. -/
namespace TokM

theorem run_ite {α} (c : Prop) [Decidable c] (x y : TM α) (s : St) :
    (if c then x else y).run s = if c then x.run s else y.run s := by
  split <;> rfl
theorem run_throw {α} (e : PyExc) (s : St) : (throw e : TM α).run s = .error e := by rfl
theorem run_liftM {α} (x : M α) (s : St) : (liftM x : TM α).run s = (x >>= fun a => .ok (a, s)) := by rfl
theorem run_monadLift {α} (x : M α) (s : St) : (monadLift x : TM α).run s = (x >>= fun a => .ok (a, s)) := by rfl

theorem next_token_run (s : St) :
    PyX9.next_token.run s = .ok ((match s.next with
      | none => PyVal.none
      | some (n, t) => PyX9.tokenObj n t s.pre.length), s) := by rfl

theorem source_run (s : St) : PyX9.source.run s = .ok (.str (s.pre ++ s.rest), s) := by rfl

theorem has_rule_str (n : Str) (s : St) :
    (PyX9.has_rule (.str n)).run s = .ok (.bool (ruleOf n).isSome, s) := by rfl

theorem rule_match_none (n : Str) (r : AnyRule) (s : St) (hr : ruleOf n = some r) (hm : matchAny r s.prev s.rest = none) :
    (PyX9.rule_match (.str n)).run s = .ok (.none, s) := by
  simp [PyX9.rule_match, hr, hm]

theorem rule_match_some (n : Str) (r : AnyRule) (k : Nat) (s : St) (hr : ruleOf n = some r)
    (hm : matchAny r s.prev s.rest = some k) :
    (PyX9.rule_match (.str n)).run s = .ok (.obj "Match" [("0", .str (s.rest.take k))], s) := by
  simp [PyX9.rule_match, hr, hm]

theorem match_group0_run (t : PyVal) : PyX9.match_group0 (.obj "Match" [("0", t)]) = .ok t := by rfl

theorem position_run (s : St) : PyTok.position.run s = .ok (.int s.pre.length, s) := by rfl

theorem set_next_token_tok (n t : Str) (s : St) :
    (PyX9.set_next_token (.obj "Token" [("name", .str n), ("text", .str t), ("position", .int s.pre.length)])).run s
      = .ok (.none, { s with next := some (n, t) }) := by
  simp [PyX9.set_next_token]

theorem set_next_token_none (s : St) :
    (PyX9.set_next_token .none).run s = .ok (.none, { s with next := none }) := by
  simp [PyX9.set_next_token]

theorem advance_nat (k : Nat) (s : St) :
    (PyX9.advance (.int (k : Int))).run s =
      .ok (.none, St.mk (s.pre ++ s.rest.take k) (Mk.lastOr (s.rest.take k) s.prev) (s.rest.drop k) s.next) := by
  have hk : ¬ ((k : Int) < 0) := by omega
  simp [PyX9.advance, hk]

theorem isNone_obj (c fs) : isNone (.obj c fs) = false := by rfl

theorem map_err {α β} (f : α → β) (e : PyExc) : f <$> (Except.error e : M α) = .error e := by rfl

theorem raise_run (s : St) : PyTok.raise_syntax_error.run s = .error "ParserSyntaxError" := by rfl

end TokM

/-- evaluation of a translated tokenizer method on a state: the `StateT` plumbing, the fields of the state, plus the lemmas given -/
syntax "tok_simp" (" [" Lean.Parser.Tactic.simpLemma,* "]")? (Lean.Parser.Tactic.location)? : tactic
macro_rules
  | `(tactic| tok_simp $[$loc:location]?) => `(tactic| tok_simp [] $[$loc]?)
  | `(tactic| tok_simp [$ts,*] $[$loc:location]?) => `(tactic|
      simp (config := {decide := true}) [TokM.run_ite, TokM.run_throw, TokM.run_liftM, TokM.run_monadLift, TokM.next_token_run,
        TokM.source_run, TokM.has_rule_str, TokM.match_group0_run, TokM.position_run, TokM.set_next_token_tok,
        TokM.set_next_token_none, TokM.advance_nat, TokM.raise_run, PyX9.tokenObj, TokM.isNone_obj, TokM.map_err,
        PyRt.is_none, PyRt.is_not_none, PyRt.ite_ok, $ts,*] $[$loc]?)

/-- `Tokenizer.check(name, peek=peek)` -/
theorem Tokenizer.check_eq_model (name peek : PyVal) (st : St) (hn : hashable name = true) :
    (Gen.PySrc.Tokenizer.check name peek).run st = (PyTok.check name peek).run st := by
  unfold Gen.PySrc.Tokenizer.check PyTok.check 
  cases hnext : st.next with
  | some nt => obtain ⟨n0, t0⟩ := nt; tok_simp [hnext]
  | none =>
    cases name
    case str n =>
      cases hr : ruleOf n with
      | none => tok_simp [hnext, hr]
      | some r =>
        cases hm : matchAny r st.prev st.rest with
        | none => tok_simp [TokM.rule_match_none _ _ _ hr hm, hnext, hr, hm]
        | some k => cases hp : truthy peek <;> tok_simp [TokM.rule_match_some _ _ _ _ hr hm, hnext, hr, hm, hp]
    all_goals first
      | (simp [hashable] at hn; done)
      | tok_simp [PyX9.has_rule, hashable, hnext]

/-- `Tokenizer.read()` -/
theorem Tokenizer.read_eq_model (st : St) (hwf : PyX9.WF st) :
    Gen.PySrc.Tokenizer.read.run st = PyTok.read.run st := by
  unfold Gen.PySrc.Tokenizer.read PyTok.read
  cases hnext : st.next with
  | none => tok_simp [hnext]
  | some nt =>
    obtain ⟨n, t⟩ := nt
    have ht := hwf n t hnext
    tok_simp [hnext, getattr, lookupField, len, ← ht]

/-- `Tokenizer.expect(name, expected=…)` -/
theorem Tokenizer.expect_eq_model (name expected : PyVal) :
    Gen.PySrc.Tokenizer.expect name expected = PyTok.expect name := by
  apply StateT.ext; intro st
  unfold Gen.PySrc.Tokenizer.expect PyTok.expect
  cases h : (PyTok.check name (.bool false)).run st with
  | error e => tok_simp [h]
  | ok p =>
    obtain ⟨v, st'⟩ := p
    cases hv : truthy v <;> tok_simp [h, hv]

/-- `Tokenizer.consume(name)` -/
theorem Tokenizer.consume_eq_model (name : PyVal) :
    Gen.PySrc.Tokenizer.consume name = PyTok.consume name := by
  apply StateT.ext; intro st
  unfold Gen.PySrc.Tokenizer.consume PyTok.consume
  cases h : (PyTok.check name (.bool false)).run st with
  | error e => tok_simp [h]
  | ok p =>
    obtain ⟨v, st'⟩ := p
    cases hv : truthy v <;> tok_simp [h, hv]

/-- `Tokenizer.raise_syntax_error(message, span_start=…, span_end=…)` -/
theorem Tokenizer.raise_syntax_error_eq_model (message span_start span_end : PyVal) (st : St) :
    (Gen.PySrc.Tokenizer.raise_syntax_error message span_start span_end).run st = PyTok.raise_syntax_error.run st := by
  unfold Gen.PySrc.Tokenizer.raise_syntax_error
  cases hs : isNone span_start <;> cases he : isNone span_end <;> tok_simp [hs, he]

/-- `with tokenizer.enclosing_tokens(open, close, around=…)` up to the `yield` -/
theorem Tokenizer.enclosing_tokens__enter_eq_model (open_ close around : PyVal) :
    Gen.PySrc.Tokenizer.enclosing_tokens__enter open_ close around = PyTok.enclosing_open open_ := by
  apply StateT.ext; intro st
  unfold Gen.PySrc.Tokenizer.enclosing_tokens__enter PyTok.enclosing_open
  cases h : (PyTok.check open_ (.bool false)).run st with
  | error e => tok_simp [h]
  | ok p =>
    obtain ⟨v, st'⟩ := p
    cases hv : truthy v
    · tok_simp [h, hv]
    · cases hr : PyTok.read.run st' with
      | error e => tok_simp [h, hv, hr]
      | ok q => obtain ⟨w, st''⟩ := q; tok_simp [h, hv, hr]

/-- … and after the body -/
theorem Tokenizer.enclosing_tokens__exit_eq_model (opened open_ close around : PyVal) (st : St) :
    (Gen.PySrc.Tokenizer.enclosing_tokens__exit opened open_ close around).run st = (PyTok.enclosing_close opened close).run st := by
  unfold Gen.PySrc.Tokenizer.enclosing_tokens__exit PyTok.enclosing_close
  cases ho : isNone opened
  · cases h : (PyTok.check close (.bool false)).run st with
    | error e => tok_simp [ho, h]
    | ok p =>
      obtain ⟨v, st'⟩ := p
      cases hv : truthy v
      · tok_simp [ho, h, hv]
      · cases hr : PyTok.read.run st' with
        | error e => tok_simp [ho, h, hv, hr]
        | ok q => obtain ⟨w, st''⟩ := q; tok_simp [ho, h, hv, hr]
  · tok_simp [ho]

/-- a fresh tokenizer is well formed -/
theorem Tokenizer.wf_new (src : PyVal) (st : St) (h : PyTok.new src = .ok st) : PyX9.WF st := by
  intro n t hnt
  cases src <;> simp [PyTok.new] at h
  subst h
  simp at hnt

namespace TokM

theorem wf_of_next_none {s : St} (h : s.next = none) : PyX9.WF s := by
  intro n t hnt; rw [h] at hnt; cases hnt

theorem take_take_length (l : Str) (k : Nat) : l.take k = l.take (l.take k).length := by
  rw [List.length_take]
  by_cases h : k ≤ l.length
  · rw [Nat.min_eq_left h]
  · rw [Nat.min_eq_right (by omega), List.take_of_length_le (by omega), List.take_of_length_le (by omega)]

theorem check_wf {name peek v : PyVal} {s s' : St} (hwf : PyX9.WF s) (h : (PyTok.check name peek).run s = .ok (v, s')) :
    PyX9.WF s' := by
  unfold PyTok.check at h
  cases hnext : s.next with
  | some nt => simp [hnext, run_throw] at h
  | none =>
    cases name
    case str n =>
      cases hr : ruleOf n with
      | none => simp [hnext, hr, run_throw] at h
      | some r =>
        cases hm : matchAny r s.prev s.rest with
        | none =>
          simp [hnext, hr, hm] at h
          rw [← h.2]; exact hwf
        | some k =>
          cases hp : truthy peek
          · simp [hnext, hr, hm, hp] at h
            rw [← h.2]
            intro n' t' e
            simp at e
            rw [← e.2]
            exact take_take_length _ _
          · simp [hnext, hr, hm, hp] at h
            rw [← h.2]; exact hwf
    all_goals simp [hnext, run_throw] at h

theorem read_next_none {v : PyVal} {s s' : St} (h : PyTok.read.run s = .ok (v, s')) : s'.next = none := by
  unfold PyTok.read at h
  cases hnext : s.next with
  | none => simp [hnext, run_throw] at h
  | some nt =>
    obtain ⟨n, t⟩ := nt
    simp [hnext] at h
    rw [← h.2]

end TokM

/-- every primitive keeps the state well formed -/
theorem Tokenizer.wf_preserved (st st' : St) (v : PyVal) (hwf : PyX9.WF st) :
    (∀ name peek, (PyTok.check name peek).run st = .ok (v, st') → PyX9.WF st') ∧
    (PyTok.read.run st = .ok (v, st') → PyX9.WF st') ∧
    (∀ name, (PyTok.expect name).run st = .ok (v, st') → PyX9.WF st') ∧
    (∀ name, (PyTok.consume name).run st = .ok (v, st') → PyX9.WF st') ∧
    (∀ o, (PyTok.enclosing_open o).run st = .ok (v, st') → PyX9.WF st') ∧
    (∀ w c, (PyTok.enclosing_close w c).run st = .ok (v, st') → PyX9.WF st') := by
  refine ⟨fun name peek h => TokM.check_wf hwf h, fun h => TokM.wf_of_next_none (TokM.read_next_none h), ?_, ?_, ?_, ?_⟩
  · intro name h
    unfold PyTok.expect at h
    cases hc : (PyTok.check name (.bool false)).run st with
    | error e => tok_simp [hc] at h
    | ok p =>
      obtain ⟨b, s1⟩ := p
      cases hb : truthy b
      · tok_simp [hc, hb] at h
      · tok_simp [hc, hb] at h
        exact TokM.wf_of_next_none (TokM.read_next_none h)
  · intro name h
    unfold PyTok.consume at h
    cases hc : (PyTok.check name (.bool false)).run st with
    | error e => tok_simp [hc] at h
    | ok p =>
      obtain ⟨b, s1⟩ := p
      cases hb : truthy b
      · tok_simp [hc, hb] at h
        rw [← h.2]; exact TokM.check_wf hwf hc
      · cases hr : PyTok.read.run s1 with
        | error e => tok_simp [hc, hb, hr] at h
        | ok q =>
          obtain ⟨w, s2⟩ := q
          tok_simp [hc, hb, hr] at h
          rw [← h.2]; exact TokM.wf_of_next_none (TokM.read_next_none hr)
  · intro o h
    unfold PyTok.enclosing_open at h
    cases hc : (PyTok.check o (.bool false)).run st with
    | error e => tok_simp [hc] at h
    | ok p =>
      obtain ⟨b, s1⟩ := p
      cases hb : truthy b
      · tok_simp [hc, hb] at h
        rw [← h.2]; exact TokM.check_wf hwf hc
      · cases hr : PyTok.read.run s1 with
        | error e => tok_simp [hc, hb, hr] at h
        | ok q =>
          obtain ⟨w, s2⟩ := q
          tok_simp [hc, hb, hr] at h
          rw [← h.2]; exact TokM.wf_of_next_none (TokM.read_next_none hr)
  · intro w c h
    unfold PyTok.enclosing_close at h
    cases ho : isNone w
    · cases hc : (PyTok.check c (.bool false)).run st with
      | error e => tok_simp [ho, hc] at h
      | ok p =>
        obtain ⟨b, s1⟩ := p
        cases hb : truthy b
        · tok_simp [ho, hc, hb] at h
        · cases hr : PyTok.read.run s1 with
          | error e => tok_simp [ho, hc, hb, hr] at h
          | ok q =>
            obtain ⟨w', s2⟩ := q
            tok_simp [ho, hc, hb, hr] at h
            rw [← h.2]; exact TokM.wf_of_next_none (TokM.read_next_none hr)
    · tok_simp [ho] at h
      rw [← h.2]; exact hwf

end Src
