import PkgModel.Generated.PySrc
import PkgModel.PyMarker
import PkgProofs.Lemmas.PyRt
import PkgProofs.Lemmas.MarkerEval
import PkgProofs.Lemmas.SrcRobust
import PkgProofs.Lemmas.SrcLoops
/-!
# Translated source of the evaluation part of `packaging/markers.py` = the model (`Mk.evalOp`, `Mk.normalize`,
`Mk.lookupEnv`, `Mk.evalMarkers`, `Mk.buildEnv`, `Mk.evaluate`)

* `_eval_op_eq_model`, `_normalize_eq_model`, `_get_env_eq_model`: the three helpers;
* `_evaluate_markers_eq_model`: by induction on the recursion fuel (`_evaluate_markers__fuel_eq_model`); the
  `for marker in markers` loop is handled by `evalLoop_forIn` (a loop lemma over an abstract body satisfying `MkStepSpec`),
  which is applied to the generated body by unification, so that the text of the body is not repeated here;
* `_repair_python_full_version_eq_model`, `Marker.evaluate_eq_model`: dicts against the model's association lists
  (`EnvRel`); `Marker.evaluate_eq_model` needs the keys of the default environment to be pairwise distinct
  (`Marker.evaluate_dup_keys_counterexample` shows why); `Marker.evaluate_eq_model'` has the weakest form of that
  hypothesis (`DfltDict`);
* `format_full_version_eq_model`.
-/
set_option linter.unusedSimpArgs false
namespace Src
open PyRt Py PyMk

theorem _eval_op_translated : Gen.PySrc._eval_op_supported = true := rfl
theorem _normalize_translated : Gen.PySrc._normalize_supported = true := rfl
theorem _get_env_translated : Gen.PySrc._get_env_supported = true := rfl
theorem _evaluate_markers_translated : Gen.PySrc._evaluate_markers_supported = true := rfl
theorem _repair_python_full_version_translated : Gen.PySrc._repair_python_full_version_supported = true := rfl
theorem format_full_version_translated : Gen.PySrc.format_full_version_supported = true := rfl
theorem Marker.evaluate_translated : Gen.PySrc.Marker.evaluate_supported = true := rfl

/-! ## string order, `in` -/

theorem strOrd_cons (a b : Nat) (s t : Str) :
    strOrd (a :: s) (b :: t) = if a < b then .lt else if b < a then .gt else strOrd s t := by
  simp only [strOrd, Ordering.then]
  by_cases h1 : a < b
  · rw [Nat.compare_eq_lt.2 h1]; simp [h1]
  · by_cases h2 : b < a
    · rw [Nat.compare_eq_gt.2 h2]; simp [h1, h2]
    · rw [Nat.compare_eq_eq.2 (by omega)]; simp [h1, h2]

theorem strCmp_lt (a b : Str) : strCmp .lt a b = strLt a b := by
  induction a generalizing b with
  | nil => cases b <;> simp [strCmp, strLt, strOrd, Cmp.onLen]
  | cons x s ih =>
    cases b with
    | nil => simp [strCmp, strLt, strOrd, Cmp.onLen]
    | cons y t =>
      have := ih t
      simp only [strLt] at this
      simp only [strCmp, strLt, strOrd_cons, this, Cmp.onLen]
      by_cases h : x = y
      · subst h; simp
      · by_cases h1 : x < y
        · simp [h, h1]
        · have : y < x := by omega
          simp [h, h1, this]

theorem strCmp_le (a b : Str) : strCmp .le a b = strLe a b := by
  induction a generalizing b with
  | nil => cases b <;> simp [strCmp, strLe, strOrd, Cmp.onLen]
  | cons x s ih =>
    cases b with
    | nil => simp [strCmp, strLe, strOrd, Cmp.onLen]
    | cons y t =>
      have := ih t
      simp only [strLe] at this
      simp only [strCmp, strLe, strOrd_cons, this, Cmp.onLen]
      by_cases h : x = y
      · subst h; simp
      · by_cases h1 : x < y
        · have : x ≤ y := by omega
          simp [h, h1, this]
        · have : y < x := by omega
          simp [h, h1, this]

theorem strCmp_gt (a b : Str) : strCmp .gt a b = strLt b a := by
  induction a generalizing b with
  | nil => cases b <;> simp [strCmp, strLt, strOrd, Cmp.onLen]
  | cons x s ih =>
    cases b with
    | nil => simp [strCmp, strLt, strOrd, Cmp.onLen]
    | cons y t =>
      have := ih t
      simp only [strLt] at this
      simp only [strCmp, strLt, strOrd_cons, this, Cmp.onLen]
      by_cases h : x = y
      · subst h; simp
      · by_cases h1 : x < y
        · have : ¬ y < x := by omega
          simp [h, h1, this]
        · have : y < x := by omega
          simp [h, this]

theorem strCmp_ge (a b : Str) : strCmp .ge a b = strLe b a := by
  induction a generalizing b with
  | nil => cases b <;> simp [strCmp, strLe, strOrd, Cmp.onLen]
  | cons x s ih =>
    cases b with
    | nil => simp [strCmp, strLe, strOrd, Cmp.onLen]
    | cons y t =>
      have := ih t
      simp only [strLe] at this
      simp only [strCmp, strLe, strOrd_cons, this, Cmp.onLen]
      by_cases h : x = y
      · subst h; simp
      · by_cases h1 : x < y
        · have : ¬ y < x := by omega
          simp [h, h1, this]
        · have : y < x := by omega
          simp [h, this]; omega

theorem isInfix_eq (hay needle : Str) : PyRt.isInfix hay needle = Mk.isInfix needle hay := by
  induction hay with
  | nil => cases needle <;> simp [PyRt.isInfix, Mk.isInfix]
  | cons c s ih =>
    cases needle with
    | nil => simp [PyRt.isInfix, Mk.isInfix, startsWith]
    | cons n ns => simp only [PyRt.isInfix, Mk.isInfix, ih]


theorem fn_key_ref (k : PyVal) : fn_key "_operators" (fn_ref "_operators" k) = .ok k := by
  simp [fn_key, fn_ref]

theorem in_str (a b : Str) : in_ (.str a) (.str b) = .ok (.bool (Mk.isInfix a b)) := by
  simp [in_, contains, isInfix_eq]
theorem not_in_str (a b : Str) : not_in (.str a) (.str b) = .ok (.bool (!Mk.isInfix a b)) := by
  simp [not_in, contains, isInfix_eq]
theorem lt_str (a b : Str) : lt (.str a) (.str b) = .ok (.bool (strLt a b)) := by
  simp [lt, cmp, strCmp_lt]
theorem le_str (a b : Str) : le (.str a) (.str b) = .ok (.bool (strLe a b)) := by
  simp [le, cmp, strCmp_le]
theorem gt_str (a b : Str) : gt (.str a) (.str b) = .ok (.bool (strLt b a)) := by
  simp [gt, cmp, strCmp_gt]
theorem ge_str (a b : Str) : ge (.str a) (.str b) = .ok (.bool (strLe b a)) := by
  simp [ge, cmp, strCmp_ge]
theorem eq_str_str (a b : Str) : PyRt.eq (.str a) (.str b) = .bool (a == b) := by simp [PyRt.eq]
theorem ne_str_str (a b : Str) : PyRt.ne (.str a) (.str b) = .bool (a != b) := by simp [PyRt.ne, bne]

/-- what the operator table does for the key `op` -/
def opResult (lhs op rhs : Str) : Option (Option Bool) :=
  (Gen.MarkerTok.opTable.lookup op).map fun id => Mk.applyOp id lhs rhs

theorem ofs_in : ofString "in" = [105, 110] := by rfl
theorem ofs_not_in : ofString "not in" = [110, 111, 116, 32, 105, 110] := by rfl
theorem ofs_lt : ofString "<" = [60] := by rfl
theorem ofs_le : ofString "<=" = [60, 61] := by rfl
theorem ofs_eq : ofString "==" = [61, 61] := by rfl
theorem ofs_ne : ofString "!=" = [33, 61] := by rfl
theorem ofs_ge : ofString ">=" = [62, 61] := by rfl
theorem ofs_gt : ofString ">" = [62] := by rfl

/-- case analysis on a key of the operator table -/
theorem opKey_cases (P : Str → Prop) (hin : ∀ k ∈ Gen.MarkerTok.opTable.map (·.1), P k)
    (hout : ∀ op, (∀ k ∈ Gen.MarkerTok.opTable.map (·.1), op ≠ k) → P op) (op : Str) : P op := by
  by_cases h : op ∈ Gen.MarkerTok.opTable.map (·.1)
  · exact hin op h
  · exact hout op (fun k hk e => h (e ▸ hk))

theorem lookup_none_of_not_mem {β} (l : List (Str × β)) (op : Str) (h : ∀ k ∈ l.map (·.1), op ≠ k) :
    l.lookup op = none := by
  induction l with
  | nil => rfl
  | cons p r ih =>
    obtain ⟨k, v⟩ := p
    have h1 : (op == k) = false := by simpa using h k (by simp)
    simp only [List.lookup, h1]
    exact ih (fun k' hk' => h k' (by simp at hk' ⊢; exact Or.inr hk'))

theorem _operators__get_str (op : Str) : Gen.PySrc._operators__get (.str op) =
    .ok (if (Gen.MarkerTok.opTable.lookup op).isSome then fn_ref "_operators" (.str op) else .none) := by
  revert op
  apply opKey_cases
  · intro k hk
    simp only [Gen.MarkerTok.opTable, List.map, List.mem_cons, List.not_mem_nil, or_false] at hk
    rcases hk with rfl | rfl | rfl | rfl | rfl | rfl | rfl | rfl <;> rfl
  · intro op h
    rw [lookup_none_of_not_mem _ op h]
    simp only [Gen.MarkerTok.opTable, List.map, List.mem_cons, List.not_mem_nil, or_false, forall_eq_or_imp, forall_eq] at h
    unfold Gen.PySrc._operators__get
    simp [hashable, ofs_in, ofs_not_in, ofs_lt, ofs_le, ofs_eq, ofs_ne, ofs_ge, ofs_gt, h]

theorem _operators__call_str (lhs op rhs : Str) :
    Gen.PySrc._operators__call (fn_ref "_operators" (.str op)) (.str lhs) (.str rhs) =
      match Gen.MarkerTok.opTable.lookup op with
      | some id => (match Mk.applyOp id lhs rhs with | some b => .ok (.bool b) | none => .error "TypeError")
      | none => .error "PyRtUnsupported" := by
  unfold Gen.PySrc._operators__call
  simp only [fn_key_ref, ok_bind, eq_str, in_str, not_in_str, lt_str, le_str, gt_str, ge_str, eq_str_str, ne_str_str, pure_ok]
  revert op
  apply opKey_cases
  · intro k hk
    simp only [Gen.MarkerTok.opTable, List.map, List.mem_cons, List.not_mem_nil, or_false] at hk
    rcases hk with rfl | rfl | rfl | rfl | rfl | rfl | rfl | rfl <;> rfl
  · intro op h
    rw [lookup_none_of_not_mem _ op h]
    simp only [Gen.MarkerTok.opTable, List.map, List.mem_cons, List.not_mem_nil, or_false, forall_eq_or_imp, forall_eq] at h
    simp [ofs_in, ofs_not_in, ofs_lt, ofs_le, ofs_eq, ofs_ne, ofs_ge, ofs_gt, h]

/-! ## the oracle, `_eval_op` -/

@[simp] theorem Node.__str___obj (c : String) (v : PyVal) : Gen.PySrc.Node.__str__ (.obj c [("value", v)]) = .ok v := by
  simp [Gen.PySrc.Node.__str__]

@[simp] theorem Op.serialize_ofOp (op : Str) : Gen.PySrc.Op.serialize (ofOp op) = .ok (.str op) := by
  simp [Gen.PySrc.Op.serialize, ofOp]

theorem str_join_empty_pair (a b : Str) : str_join (.str (ofString "")) (.list [.str a, .str b]) = .ok (.str (a ++ b)) := by
  have := str_join_empty_list [a, b]
  simpa [show ofString "" = ([] : Str) from rfl] using this

theorem ext_Specifier (O : PyMk.Oracle) (s : Str) :
    ext_call O.ext "Specifier" [.str s, .none] = if O.specOk s then .ok (specObj s) else .error "InvalidSpecifier" := by
  rfl

theorem ext_contains (O : PyMk.Oracle) (s v : Str) :
    ext_call O.ext "Specifier.contains" [specObj s, .str v, .bool true] =
      match O.specContains s v with | some b => .ok (.bool b) | none => .error "InvalidVersion" := by
  rfl

theorem ext_canon (O : PyMk.Oracle) (s : Str) :
    ext_call O.ext "canonicalize_name" [.str s, .bool false] = .ok (.str (O.canon s)) := by
  rfl

theorem ext_dflt (O : PyMk.Oracle) :
    ext_call O.ext "default_environment" [] = .ok (.dict (O.dflt.map fun p => (.str p.1, .str p.2))) := by
  rfl

/-! ### what `do` notation leaves behind for mutable locals across `try` (a `StateT` layer) and for `return` inside
`try` (an `ExceptT` layer) -/

@[simp] theorem stateT_pure_apply {σ α : Type} (a : α) (s : σ) : (pure a : StateT σ M α) s = .ok (a, s) := by rfl
@[simp] theorem earlyReturn_eq {ρ α : Type} (r : ρ) :
    (EarlyReturnT.return r : EarlyReturnT ρ M α) = (Except.ok (Except.error r) : M (Except ρ α)) := by rfl
@[simp] theorem runK_ok {ρ α β : Type} (a : α) (ret : ρ → β) (k : α → β) : EarlyReturn.runK (Except.ok a) ret k = k a := by rfl
@[simp] theorem runK_error {ρ α β : Type} (r : ρ) (ret : ρ → β) (k : α → β) : EarlyReturn.runK (Except.error r) ret k = ret r := by
  rfl
@[simp] theorem exceptT_run_pure {ρ α : Type} (a : α) :
    ExceptT.run (pure a : ExceptT ρ M α) = (Except.ok (Except.ok a) : M (Except ρ α)) := by rfl

@[simp] theorem isNone_fn_ref (t : String) (k : PyVal) : isNone (fn_ref t k) = false := by rfl

/-- the part of `_eval_op` after the two `try` blocks: look the operator up and apply it -/
theorem operators_tail (lhs op rhs : Str) :
    (do let oper ← Gen.PySrc._operators__get (PyVal.str op)
        if isNone oper = true then do
            (throw "UndefinedComparison" : M PUnit)
            Gen.PySrc._operators__call oper (PyVal.str lhs) (PyVal.str rhs)
          else Gen.PySrc._operators__call oper (PyVal.str lhs) (PyVal.str rhs)) =
      ofRes PyVal.bool (match Gen.MarkerTok.opTable.lookup op with
        | none => .error .undefinedComparison
        | some id => match Mk.applyOp id lhs rhs with
          | some b => .ok b
          | none => .error (.raw .typeError)) := by
  simp only [_operators__get_str, ok_bind]
  cases h : Gen.MarkerTok.opTable.lookup op with
  | none => simp [ofRes, excName]
  | some id =>
    simp only [Option.isSome_some, if_true, isNone_fn_ref, _operators__call_str, h, Bool.false_eq_true, if_false]
    cases Mk.applyOp id lhs rhs <;> rfl

/-- `_eval_op`: symbolic evaluation over the four things the outcome depends on (is `op + rhs` a specifier, does it contain
`lhs` / is `lhs` a version, is `op` in the table, does the plain comparison apply) — independent of whether the first `try`
uses `else` or a sentinel, and of how the table is consulted (`.get(k) is None`, `k not in T` and `T[k]`) -/
theorem _eval_op_eq_model (O : PyMk.Oracle) (lhs op rhs : Str) :
    Gen.PySrc._eval_op O.ext (.str lhs) (ofOp op) (.str rhs) = ofRes PyVal.bool (Mk.evalOp O.toExt lhs op rhs) := by
  unfold Gen.PySrc._eval_op Mk.evalOp
  have c1 : catches "InvalidSpecifier" "InvalidSpecifier" = true := by decide
  have c2 : catches "InvalidVersion" "InvalidVersion" = true := by decide
  have hso : ∀ s, isNone (specObj s) = false := fun _ => rfl
  simp only [Op.serialize_ofOp, ok_bind, str_join_empty_pair, ext_Specifier, Oracle.toExt]
  cases hs : O.specOk (op ++ rhs) <;> cases hc : O.specContains (op ++ rhs) lhs <;>
    cases hl : Gen.MarkerTok.opTable.lookup op <;>
    (try (rename_i id; cases ha : Mk.applyOp id lhs rhs)) <;>
    src_simp [hs, hc, hl, c1, c2, hso, ext_contains, _operators__get_str, _operators__call_str, isNone_fn_ref, ofRes, excName,
      pure, Except.pure, bind, Except.bind] <;>
    (try simp_all [ofRes, excName]) <;> (try rfl)

/-! ## `_normalize`, `_get_env` -/

theorem ofs_extra : ofString "extra" = Mk.s_extra := by rfl

theorem _normalize_eq_model (O : PyMk.Oracle) (l r key : Str) :
    Gen.PySrc._normalize O.ext (.tuple [.str l, .str r]) (.str key) =
      .ok (.tuple [.str (Mk.normalize O.toExt l r key).1, .str (Mk.normalize O.toExt l r key).2]) := by
  unfold Gen.PySrc._normalize Mk.normalize
  simp only [eq_str, ofs_extra]
  cases h : key == Mk.s_extra with
  | false => simp
  | true =>
    simp only [if_true]
    rw [genexp_ok _ (fun v => match v with | .str s => .str (O.canon s) | v => v) _ [.str l, .str r] (by simp)]
    · simp [Oracle.toExt]
    · intro x hx
      simp only [List.mem_cons, List.not_mem_nil, or_false] at hx
      rcases hx with rfl | rfl <;> simp [ext_canon]

theorem dict_getitem_str (d : List (PyVal × PyVal)) (k : Str) : dict_getitem (.dict d) (.str k) =
    match dictLookup d (.str k) with | some v => .ok v | none => .error "KeyError" := by
  simp only [dict_getitem, hashable]
  cases dictLookup d (.str k) <;> rfl

theorem _get_env_eq_model (d : List (PyVal × PyVal)) (e : Mk.Env) (h : EnvRel d e) (hn : NoNone e) (k : Str) :
    Gen.PySrc._get_env (.dict d) (.str k) = ofRes PyVal.str (Mk.lookupEnv e k) := by
  unfold Gen.PySrc._get_env Mk.lookupEnv
  simp only [dict_getitem_str, h k]
  have c : catches "KeyError" "KeyError" = true := by decide
  cases hg : e.get? k with
  | none => simp [c, ofRes, excName]
  | some o =>
    cases o with
    | none => exact absurd hg (hn k)
    | some v => simp [ofOptStr, ofRes]

/-! ## `_evaluate_markers` -/

theorem ofMs_eq_map (l : List Mk.M) : ofMs l = l.map ofM := by
  induction l with
  | nil => rfl
  | cons m ms ih => simp [ofMs, ih]

/-- the mutable locals of the loop (`lhs, op, rhs, environment_key, lhs_value, rhs_value, …, groups`): any tuple whose last
component is the local `groups` (declared last); how many temporaries precede it is irrelevant -/
abbrev groupsOf {σ : Type} [LastPy σ] (s : σ) : PyVal := LastPy.last s

def ofGroups (gs : List (List Bool)) : PyVal := .list (gs.map fun g => .list (g.map .bool))

/-- what one iteration of the model's loop does to `(done, cur)` -/
def stepRes (ν : Mk.Atom → Mk.Res Bool) (m : Mk.M) (done : List (List Bool)) (cur : List Bool) :
    Mk.Res (List (List Bool) × List Bool) :=
  match m with
  | .bool t =>
    if t == Mk.s_or then .ok (done ++ [cur], []) else if t == Mk.s_and then .ok (done, cur)
    else .error (.raw .assertionError)
  | m => (Mk.evalItem ν m).map fun b => (done, cur ++ [b])

theorem evalLoop_cons (ν : Mk.Atom → Mk.Res Bool) (m : Mk.M) (rest : List Mk.M) (done cur) :
    Mk.evalLoop ν (m :: rest) done cur = (stepRes ν m done cur >>= fun p => Mk.evalLoop ν rest p.1 p.2) := by
  cases m with
  | atom a =>
    simp only [Mk.evalLoop, stepRes]
    cases Mk.evalItem ν (.atom a) <;> rfl
  | list l =>
    simp only [Mk.evalLoop, stepRes]
    cases Mk.evalItem ν (.list l) <;> rfl
  | bool t =>
    simp only [Mk.evalLoop, stepRes]
    split
    · rfl
    · split <;> rfl

/-- one iteration of the translated loop agrees with the model's -/
def MkStepSpec {σ : Type} [LastPy σ] (ν : Mk.Atom → Mk.Res Bool) (body : PyVal → σ → M (ForInStep σ)) (m : Mk.M) : Prop :=
  ∀ (s : σ) (done : List (List Bool)) (cur : List Bool), groupsOf s = ofGroups (done ++ [cur]) →
    match stepRes ν m done cur with
    | .ok p => ∃ s', body (ofM m) s = .ok (.yield s') ∧ groupsOf s' = ofGroups (p.1 ++ [p.2])
    | .error e => body (ofM m) s = .error (excName e)

theorem evalLoop_forIn {σ : Type} [LastPy σ] (ν : Mk.Atom → Mk.Res Bool) (body : PyVal → σ → M (ForInStep σ)) (items : List Mk.M)
    (hstep : ∀ m ∈ items, MkStepSpec ν body m) :
    ∀ (s : σ) (done : List (List Bool)) (cur : List Bool), groupsOf s = ofGroups (done ++ [cur]) →
      match Mk.evalLoop ν items done cur with
      | .ok gs => ∃ s', forIn (ofMs items) s body = .ok s' ∧ groupsOf s' = ofGroups gs
      | .error e => forIn (ofMs items) s body = .error (excName e) := by
  induction items with
  | nil =>
    intro s done cur hs
    simp only [Mk.evalLoop, ofMs, List.forIn_nil]
    exact ⟨s, rfl, hs⟩
  | cons m rest ih =>
    intro s done cur hs
    have h1 := hstep m (List.mem_cons_self ..) s done cur hs
    rw [evalLoop_cons]
    simp only [ofMs, List.forIn_cons]
    cases hr : stepRes ν m done cur with
    | error e =>
      rw [hr] at h1
      simp only [h1]
      rfl
    | ok p =>
      rw [hr] at h1
      obtain ⟨s', hb, hg⟩ := h1
      simp only [hb, ok_bind]
      exact ih (fun m' hm' => hstep m' (List.mem_cons_of_mem _ hm')) s' p.1 p.2 hg

/-- `any(all(item) for item in groups)` -/
theorem any_all_groups (gs : List (List Bool)) :
    any_gen (fun item => all_ item) (ofGroups gs) = .ok (.bool (Mk.anyAll gs)) := by
  simp only [any_gen, ofGroups, iterate_list, ok_bind]
  rw [anyM_ok _ (fun v => match v with | .list l => l.all truthy | _ => false)]
  · simp only [pure_ok, ok_bind, List.any_map, Mk.anyAll]
    congr 3
    funext g
    simp only [Function.comp, List.all_map]
    congr 1
  · intro x hx
    simp only [List.mem_map] at hx
    obtain ⟨g, _, rfl⟩ := hx
    simp [all_]

/-- the loop followed by what only looks at `groups` -/
theorem evalLoop_forIn_bind {σ : Type} [LastPy σ] (ν : Mk.Atom → Mk.Res Bool) (body : PyVal → σ → M (ForInStep σ)) (items : List Mk.M)
    (k : σ → M PyVal) (s : σ)
    (hs : groupsOf s = ofGroups [[]])
    (hk : ∀ s' gs, groupsOf s' = ofGroups gs → k s' = .ok (.bool (Mk.anyAll gs)))
    (hstep : ∀ m ∈ items, MkStepSpec ν body m) :
    (forIn (ofMs items) s body >>= k) = ofRes PyVal.bool (Mk.evalMarkers ν items) := by
  have := evalLoop_forIn ν body items hstep s [] [] hs
  unfold Mk.evalMarkers
  cases hl : Mk.evalLoop ν items [] [] with
  | error e => rw [hl] at this; simp only [this]; rfl
  | ok gs =>
    rw [hl] at this
    obtain ⟨s', h1, h2⟩ := this
    simp only [h1, ok_bind, hk s' gs h2]
    rfl


theorem getitem_list_last (xs : List PyVal) (x : PyVal) : getitem (.list (xs ++ [x])) (.int (-1)) = .ok x := by
  simp [getitem, asInt, normIndex]

theorem setitem_list_last (xs : List PyVal) (x y : PyVal) :
    setitem (.list (xs ++ [x])) (.int (-1)) y = .ok (.list (xs ++ [y])) := by
  simp [setitem, asInt, normIndex]

theorem ofGroups_snoc (done : List (List Bool)) (cur : List Bool) :
    ofGroups (done ++ [cur]) = .list ((done.map fun g => PyVal.list (g.map .bool)) ++ [.list (cur.map .bool)]) := by
  simp [ofGroups]

@[simp] theorem getattr_ofNode (n : Mk.Node) : getattr (ofNode n) "value" = .ok (.str n.value) := by
  cases n <;> rfl

@[simp] theorem isinstance_ofNode_Variable (n : Mk.Node) : isinstance (ofNode n) ["Variable"] = n.isVar := by
  cases n <;> rfl

theorem size_le_sizeL (m : Mk.M) (l : List Mk.M) (h : m ∈ l) : size (ofM m) ≤ sizeL (ofMs l) := by
  induction l with
  | nil => cases h
  | cons x xs ih =>
    simp only [ofMs, sizeL]
    rcases List.mem_cons.1 h with rfl | h'
    · omega
    · have := ih h'; omega

theorem isinstance_list (l : List PyVal) (cs : List String) : isinstance (.list l) cs = cs.contains "list" := by
  simp [isinstance, className]
theorem isinstance_tuple (l : List PyVal) (cs : List String) : isinstance (.tuple l) cs = cs.contains "tuple" := by
  simp [isinstance, className]
theorem isinstance_str (t : Str) (cs : List String) : isinstance (.str t) cs = cs.contains "str" := by
  simp [isinstance, className]

theorem node_isVar_var (k : Str) : (Mk.Node.var k).isVar = true := rfl
theorem node_isVar_val (k : Str) : (Mk.Node.val k).isVar = false := rfl
theorem node_value_var (k : Str) : (Mk.Node.var k).value = k := rfl
theorem node_value_val (k : Str) : (Mk.Node.val k).value = k := rfl
theorem res_ok_bind {ε α β : Type} (a : α) (f : α → Except ε β) : (Except.ok a >>= f) = f a := by rfl

theorem ofs_and : ofString "and" = Mk.s_and := by rfl
theorem ofs_or : ofString "or" = Mk.s_or := by rfl

theorem _evaluate_markers__fuel_eq_model (O : PyMk.Oracle) (d : List (PyVal × PyVal)) (e : Mk.Env) (h : EnvRel d e)
    (hn : NoNone e) : ∀ (n : Nat) (l : List Mk.M), sizeL (ofMs l) < n →
    Gen.PySrc._evaluate_markers__fuel O.ext n (ofML l) (.dict d) =
      ofRes PyVal.bool (Mk.evalMarkers (Mk.evalAtom O.toExt e) l) := by
  intro n
  induction n with
  | zero => intro l hl; omega
  | succ n ih =>
    intro l hl
    rw [Gen.PySrc._evaluate_markers__fuel]
    simp only [ofML, iterate_list, ok_bind]
    apply evalLoop_forIn_bind
    · rfl
    · intro s' gs hg
      simp only [groupsOf, LastPy.last] at hg
      simp only [hg, any_all_groups]
    · intro m hm s done cur hs
      simp only [groupsOf, LastPy.last] at hs
      simp only [hs]
      cases m with
      | list l' =>
        have hsz : sizeL (ofMs l') < n := by
          have := size_le_sizeL _ _ hm
          simp only [ofM, size] at this
          omega
        have ih' := ih l' hsz
        simp only [ofML] at ih'
        simp only [ofM, stepRes, Mk.evalItem, isinstance_list, ih']
        simp only [List.contains_cons, List.contains_nil, BEq.rfl, Bool.true_or, truthy_bool, Bool.not_true, Bool.false_eq_true, if_false, if_true,
          ofGroups_snoc, getitem_list_last, ok_bind, setitem_list_last, Mk.evalMarkers]
        cases Mk.evalLoop (Mk.evalAtom O.toExt e) l' [] [] with
        | error x => rfl
        | ok gs => exact ⟨_, rfl, by simp [groupsOf, LastPy.last, Except.map]⟩
      | atom a =>
        obtain ⟨lhs, op, rhs⟩ := a
        simp only [ofM, ofAtom, stepRes, Mk.evalItem, isinstance_tuple]
        simp (config := {decide := true}) only [List.contains_cons, List.contains_nil, BEq.rfl, Bool.true_or, Bool.or_true, truthy_bool, Bool.not_true, Bool.false_eq_true, if_false, if_true,
          ofGroups_snoc, getitem_list_last, ok_bind, setitem_list_last, unpack3, iterate_tuple, pure_ok,
          isinstance_ofNode_Variable, getattr_ofNode, Bool.or_false, Mk.evalAtom, Mk.operands]
        cases lhs with
        | var k =>
          simp only [node_isVar_var, if_true, node_value_var, _get_env_eq_model d e h hn]
          cases Mk.lookupEnv e k with
          | error x => rfl
          | ok v =>
            simp only [ofRes, ok_bind, res_ok_bind, _normalize_eq_model, unpack2, iterate_tuple, pure_ok, _eval_op_eq_model,
              Except.map]
            generalize Mk.normalize O.toExt v rhs.value k = N
            cases Mk.evalOp O.toExt N.1 op N.2 with
            | error x => rfl
            | ok b => exact ⟨_, rfl, by simp [groupsOf, LastPy.last]⟩
        | val v =>
          simp only [node_isVar_val, Bool.false_eq_true, if_false, node_value_val, _get_env_eq_model d e h hn]
          cases Mk.lookupEnv e rhs.value with
          | error x => rfl
          | ok w =>
            simp only [ofRes, ok_bind, res_ok_bind, _normalize_eq_model, unpack2, iterate_tuple, pure_ok, _eval_op_eq_model,
              Except.map]
            generalize Mk.normalize O.toExt v w rhs.value = N
            cases Mk.evalOp O.toExt N.1 op N.2 with
            | error x => rfl
            | ok b => exact ⟨_, rfl, by simp [groupsOf, LastPy.last]⟩
      | bool t =>
        simp only [ofM, stepRes, isinstance_str]
        simp (config := {decide := true}) only [List.contains_cons, List.contains_nil, BEq.rfl, Bool.true_or, Bool.or_true, truthy_bool, Bool.not_true, Bool.false_eq_true, if_false, if_true,
          ofGroups_snoc, ok_bind, pure_ok, Bool.or_false, contains, List.any_cons, List.any_nil, eq_str, ofs_and, ofs_or,
          list_append_list]
        cases h1 : t == Mk.s_or with
        | true =>
          simp only [Bool.or_true, Bool.not_true, Bool.false_eq_true, if_false, if_true]
          exact ⟨_, rfl, by simp [groupsOf, LastPy.last]⟩
        | false =>
          cases h2 : t == Mk.s_and with
          | true =>
            simp only [Bool.or_false, Bool.true_or, Bool.not_true, Bool.false_eq_true, if_false, if_true]
            exact ⟨_, rfl, by simp [groupsOf, LastPy.last]⟩
          | false => simp [assertionError, excName, rawName]


theorem _evaluate_markers_eq_model (O : PyMk.Oracle) (d : List (PyVal × PyVal)) (e : Mk.Env) (h : EnvRel d e)
    (hn : NoNone e) (l : List Mk.M) :
    Gen.PySrc._evaluate_markers O.ext (ofML l) (.dict d) =
      ofRes PyVal.bool (Mk.evalMarkers (Mk.evalAtom O.toExt e) l) := by
  unfold Gen.PySrc._evaluate_markers
  apply _evaluate_markers__fuel_eq_model O d e h hn
  simp only [fuelOf, sizeL, ofML, size]
  omega

/-! ## dicts with `str` keys -/

theorem eq_str_right (x : PyVal) (k : Str) : PyVal.eq x (.str k) = true ↔ x = .str k := by
  cases x <;> simp [PyVal.eq]

theorem dictLookup_dictSet (d : List (PyVal × PyVal)) (k k' : Str) (v : PyVal) :
    dictLookup (dictSet d (.str k) v) (.str k') = if k = k' then some v else dictLookup d (.str k') := by
  induction d with
  | nil =>
    simp only [dictSet, dictLookup, eq_str]
    by_cases hk : k = k' <;> simp [hk]
  | cons p r ih =>
    obtain ⟨kk, x⟩ := p
    simp only [dictSet]
    cases hkk : PyVal.eq kk (.str k) with
    | true =>
      have := (eq_str_right kk k).1 hkk
      subst this
      simp only [if_true, dictLookup, eq_str]
      by_cases hk : k = k' <;> simp [hk]
    | false =>
      simp only [Bool.false_eq_true, if_false, dictLookup, ih]
      by_cases hk : k = k'
      · subst hk; simp [hkk]
      · simp [hk]

theorem EnvRel_set {d : List (PyVal × PyVal)} {e : Mk.Env} (h : EnvRel d e) (k : Str) (v : Option Str) :
    EnvRel (dictSet d (.str k) (ofOptStr v)) (e ++ [(k, v)]) := by
  intro k'
  rw [dictLookup_dictSet, MkEval.get?_append, MkEval.get?_single, h k']
  by_cases hk : k = k' <;> simp [hk]

theorem ofs_pfv : ofString "python_full_version" = Mk.s_pfv := by rfl
theorem ofs_local : ofString "local" = Mk.s_local := by rfl
theorem ofs_plus : ofString "+" = [43] := by rfl

theorem dict_setitem_str (d : List (PyVal × PyVal)) (k : Str) (v : PyVal) :
    dict_setitem (.dict d) (.str k) v = .ok (.dict (dictSet d (.str k) v)) := by rfl

theorem _repair_python_full_version_eq_model (d : List (PyVal × PyVal)) (e : Mk.Env) (h : EnvRel d e) :
    match e.get? Mk.s_pfv with
    | none => Gen.PySrc._repair_python_full_version (.dict d) = .error "KeyError"
    | some none => Gen.PySrc._repair_python_full_version (.dict d) = .error "AttributeError"
    | some (some v) => ∃ d', Gen.PySrc._repair_python_full_version (.dict d) = .ok (.dict d') ∧
        EnvRel d' (if endsWith v [43] then e ++ [(Mk.s_pfv, some (v ++ Mk.s_local))] else e) := by
  unfold Gen.PySrc._repair_python_full_version
  simp only [ofs_pfv, ofs_local, ofs_plus, dict_getitem_str, h Mk.s_pfv]
  cases hg : e.get? Mk.s_pfv with
  | none => rfl
  | some o =>
    cases o with
    | none => rfl
    | some v =>
      simp only [Option.map, ofOptStr, ok_bind, str_endswith, pure_ok, truthy_bool, add, dict_setitem_str]
      cases hv : endsWith v [43] with
      | false => exact ⟨d, rfl, h⟩
      | true => exact ⟨_, rfl, EnvRel_set h Mk.s_pfv (some (v ++ Mk.s_local))⟩


/-! ### `dict.update`: keys pairwise distinct, so that "first match" (a dict lookup) and "last match" (what a fold of
`dictSet` leaves) agree -/

theorem dictLookup_append (a b : List (PyVal × PyVal)) (k : PyVal) :
    dictLookup (a ++ b) k = match dictLookup a k with | some v => some v | none => dictLookup b k := by
  induction a with
  | nil => rfl
  | cons p r ih =>
    obtain ⟨kk, x⟩ := p
    simp only [List.cons_append, dictLookup]
    cases PyVal.eq kk k <;> simp [ih]

def StrKeys (d : List (PyVal × PyVal)) : Prop := ∀ p ∈ d, ∃ k : Str, p.1 = .str k

def Dist (d : List (PyVal × PyVal)) : Prop := (d.map Prod.fst).Pairwise (fun a b => PyVal.eq a b = false)

theorem fold_dictSet_lookup (o : List (PyVal × PyVal)) (hs : StrKeys o) (kvs : List (PyVal × PyVal)) (k' : Str) :
    dictLookup (o.foldl (fun acc p => dictSet acc p.1 p.2) kvs) (.str k') =
      match dictLookup o.reverse (.str k') with | some v => some v | none => dictLookup kvs (.str k') := by
  induction o generalizing kvs with
  | nil => rfl
  | cons p r ih =>
    obtain ⟨kk, x⟩ := p
    obtain ⟨k, hk⟩ := hs (kk, x) (List.mem_cons_self ..)
    simp only at hk
    subst hk
    simp only [List.foldl_cons, List.reverse_cons, dictLookup_append]
    rw [ih (fun q hq => hs q (List.mem_cons_of_mem _ hq))]
    cases dictLookup r.reverse (.str k') with
    | some v => rfl
    | none =>
      simp only [dictLookup_dictSet, dictLookup, eq_str]
      by_cases hkk : k = k' <;> simp [hkk]

theorem dictLookup_some_mem (d : List (PyVal × PyVal)) (k : Str) (v : PyVal) (h : dictLookup d (.str k) = some v) :
    PyVal.str k ∈ d.map Prod.fst := by
  induction d with
  | nil => simp [dictLookup] at h
  | cons p r ih =>
    obtain ⟨kk, x⟩ := p
    simp only [dictLookup] at h
    cases hkk : PyVal.eq kk (.str k) with
    | true =>
      have := (eq_str_right kk k).1 hkk
      simp [this]
    | false =>
      simp only [hkk, Bool.false_eq_true, if_false] at h
      simp [ih h]

theorem Dist.lookup_reverse {d : List (PyVal × PyVal)} (hd : Dist d) (k : Str) :
    dictLookup d.reverse (.str k) = dictLookup d (.str k) := by
  induction d with
  | nil => rfl
  | cons p r ih =>
    obtain ⟨kk, x⟩ := p
    simp only [Dist, List.map_cons, List.pairwise_cons] at hd
    simp only [List.reverse_cons, dictLookup_append, ih hd.2, dictLookup]
    cases hkk : PyVal.eq kk (.str k) with
    | true =>
      have e := (eq_str_right kk k).1 hkk
      subst e
      cases hl : dictLookup r (.str k) with
      | none => rfl
      | some v =>
        have := hd.1 _ (dictLookup_some_mem r k v hl)
        simp at this
    | false =>
      cases dictLookup r (.str k) <;> rfl

theorem keys_dictSet (d : List (PyVal × PyVal)) (key v b : PyVal) (h : b ∈ (dictSet d key v).map Prod.fst) :
    b ∈ d.map Prod.fst ∨ b = key := by
  induction d with
  | nil => simp [dictSet] at h; exact Or.inr h
  | cons p r ih =>
    obtain ⟨kk, x⟩ := p
    simp only [dictSet] at h
    cases hkk : PyVal.eq kk key with
    | true => simp only [hkk, if_true, List.map_cons] at h; exact Or.inl (by simpa using h)
    | false =>
      simp only [hkk, Bool.false_eq_true, if_false, List.map_cons, List.mem_cons] at h
      rcases h with h | h
      · exact Or.inl (by simp [h])
      · rcases ih h with h' | h'
        · exact Or.inl (by simp [h'])
        · exact Or.inr h'

theorem Dist.set {d : List (PyVal × PyVal)} (hd : Dist d) (key v : PyVal) : Dist (dictSet d key v) := by
  induction d with
  | nil => simp [dictSet, Dist]
  | cons p r ih =>
    obtain ⟨kk, x⟩ := p
    simp only [Dist, List.map_cons, List.pairwise_cons] at hd
    simp only [dictSet]
    cases hkk : PyVal.eq kk key with
    | true => simpa [Dist] using hd
    | false =>
      simp only [Bool.false_eq_true, if_false, Dist, List.map_cons, List.pairwise_cons]
      refine ⟨?_, ih hd.2⟩
      intro b hb
      rcases keys_dictSet r key v b hb with h | h
      · exact hd.1 b h
      · subst h; exact hkk

theorem StrKeys.set {d : List (PyVal × PyVal)} (hd : StrKeys d) (k : Str) (v : PyVal) : StrKeys (dictSet d (.str k) v) := by
  intro p hp
  have : p.1 ∈ (dictSet d (.str k) v).map Prod.fst := List.mem_map_of_mem hp
  rcases keys_dictSet d _ v _ this with h | h
  · obtain ⟨q, hq, e⟩ := List.mem_map.1 h
    rw [← e]; exact hd q hq
  · exact ⟨k, h⟩

theorem dictOfEnv_inv (e : Mk.Env) : ∀ (acc : List (PyVal × PyVal)) (e0 : Mk.Env), StrKeys acc → Dist acc → EnvRel acc e0 →
    StrKeys (e.foldl (fun acc p => dictSet acc (.str p.1) (ofOptStr p.2)) acc) ∧
    Dist (e.foldl (fun acc p => dictSet acc (.str p.1) (ofOptStr p.2)) acc) ∧
    EnvRel (e.foldl (fun acc p => dictSet acc (.str p.1) (ofOptStr p.2)) acc) (e0 ++ e) := by
  induction e with
  | nil => intro acc e0 h1 h2 h3; simpa using ⟨h1, h2, h3⟩
  | cons p r ih =>
    intro acc e0 h1 h2 h3
    have := ih _ (e0 ++ [p]) (h1.set p.1 (ofOptStr p.2)) (h2.set _ _) (EnvRel_set h3 p.1 p.2)
    simpa using this

theorem EnvRel_nil : EnvRel [] [] := by intro k; rfl

theorem dictOfEnv_spec (e : Mk.Env) : StrKeys (dictOfEnv e) ∧ Dist (dictOfEnv e) ∧ EnvRel (dictOfEnv e) e := by
  have := dictOfEnv_inv e [] [] (by intro p hp; cases hp) (by simp [Dist]) EnvRel_nil
  simpa [dictOfEnv] using this

/-- `d.update(other)` for a dict `other` that stands for the model environment `e` -/
theorem EnvRel_update {d : List (PyVal × PyVal)} {c : Mk.Env} (h : EnvRel d c) (e : Mk.Env) :
    EnvRel ((dictOfEnv e).foldl (fun acc p => dictSet acc p.1 p.2) d) (c ++ e) := by
  obtain ⟨h1, h2, h3⟩ := dictOfEnv_spec e
  intro k
  rw [fold_dictSet_lookup _ h1, h2.lookup_reverse, h3 k, h k, MkEval.get?_append]
  cases e.get? k <;> rfl

/-! ## `Marker.evaluate` -/

@[simp] theorem isNone_dict (d) : isNone (.dict d) = false := by rfl

/-- `_repair_python_full_version` on the model's environment (the last step of `Mk.buildEnv`) -/
def repairEnv (cur : Mk.Env) : Mk.Res Mk.Env :=
  match cur.get? Mk.s_pfv with
  | none => .error (.raw .keyError)
  | some none => .error (.raw .attributeError)
  | some (some v) => if endsWith v [43] then .ok (cur ++ [(Mk.s_pfv, some (v ++ Mk.s_local))]) else .ok cur

theorem buildEnv_eq_repair (dflt : List (Str × Str)) (supplied : Option Mk.Env) :
    Mk.buildEnv dflt supplied = repairEnv (MkEval.cur1 dflt supplied) := by
  rw [MkEval.buildEnv_eq]; rfl

/-- the default environment is a dict: looking a key up in the list of its items finds the binding the model finds -/
def DfltDict (O : PyMk.Oracle) : Prop :=
  EnvRel (O.dflt.map fun p => (PyVal.str p.1, PyVal.str p.2)) (O.dflt.map fun p => (p.1, some p.2))

/-- from `_markers` on: repair the environment, evaluate -/
theorem evaluate_tail (O : PyMk.Oracle) (m : List Mk.M) (d : List (PyVal × PyVal)) (c : Mk.Env) (h : EnvRel d c)
    (hn : ∀ env, repairEnv c = .ok env → NoNone env) :
    (do let a ← getattr (ofMarker m) "_markers"
        let ce ← Gen.PySrc._repair_python_full_version (.dict d)
        Gen.PySrc._evaluate_markers O.ext a ce) =
      ofRes PyVal.bool (repairEnv c >>= fun env => Mk.evalMarkers (Mk.evalAtom O.toExt env) m) := by
  have hr := _repair_python_full_version_eq_model d c h
  simp only [ofMarker, getattr_obj, lookupField_cons, BEq.rfl, if_true, ok_bind]
  unfold repairEnv at hn ⊢
  cases hg : c.get? Mk.s_pfv with
  | none => rw [hg] at hr; simp only [hr]; rfl
  | some o =>
    cases o with
    | none => rw [hg] at hr; simp only [hr]; rfl
    | some v =>
      rw [hg] at hr hn
      obtain ⟨d', h1, h2⟩ := hr
      simp only [h1, ok_bind]
      cases hv : endsWith v [43] with
      | true =>
        simp only [hv, if_true] at h2 hn ⊢
        exact _evaluate_markers_eq_model O d' _ h2 (hn _ rfl) m
      | false =>
        simp only [hv, Bool.false_eq_true, if_false] at h2 hn ⊢
        exact _evaluate_markers_eq_model O d' _ h2 (hn _ rfl) m

theorem Marker.evaluate_eq_model' (O : PyMk.Oracle) (hd : DfltDict O) (supplied : Option Mk.Env) (m : List Mk.M)
    (hn : ∀ env, Mk.buildEnv O.dflt supplied = .ok env → NoNone env) :
    Gen.PySrc.Marker.evaluate O.ext (ofMarker m) (ofSupplied supplied) =
      ofRes PyVal.bool (Mk.evaluate O.toExt O.dflt supplied m) := by
  unfold Gen.PySrc.Marker.evaluate Mk.evaluate
  simp only [buildEnv_eq_repair] at hn ⊢
  simp only [ext_dflt, ok_bind, ofs_extra, show ofString "" = ([] : Str) from rfl, dict_setitem_str]
  have h0 : EnvRel (dictSet (O.dflt.map fun p => (PyVal.str p.1, PyVal.str p.2)) (.str Mk.s_extra) (.str []))
      ((O.dflt.map fun p => (p.1, some p.2)) ++ [(Mk.s_extra, some [])]) := EnvRel_set hd Mk.s_extra (some [])
  cases supplied with
  | none =>
    simp only [ofSupplied, isNone_none, Bool.not_true, Bool.false_eq_true, if_false]
    exact evaluate_tail O m _ _ h0 hn
  | some e =>
    have h1 := EnvRel_update h0 e
    simp only [ofSupplied, isNone_dict, Bool.not_false, if_true, dict_update, pure_ok, ok_bind, dict_getitem_str,
      h1 Mk.s_extra]
    have hc : MkEval.cur1 O.dflt (some e) =
        match Mk.Env.get? ((O.dflt.map fun p : Str × Str => (p.1, some p.2)) ++ [(Mk.s_extra, some [])] ++ e) Mk.s_extra with
        | some none => (O.dflt.map fun p : Str × Str => (p.1, some p.2)) ++ [(Mk.s_extra, some [])] ++ e ++ [(Mk.s_extra, some [])]
        | _ => (O.dflt.map fun p : Str × Str => (p.1, some p.2)) ++ [(Mk.s_extra, some [])] ++ e := by rfl
    rw [hc] at hn ⊢
    have hx : ∃ x, Mk.Env.get? ((O.dflt.map fun p : Str × Str => (p.1, some p.2)) ++ [(Mk.s_extra, some [])] ++ e) Mk.s_extra = some x := by
      simp only [MkEval.get?_append, MkEval.get?_single, if_true]
      cases e.get? Mk.s_extra with
      | none => exact ⟨_, rfl⟩
      | some x => exact ⟨_, rfl⟩
    obtain ⟨x, hx⟩ := hx
    rw [hx] at hn ⊢
    cases x with
    | none =>
      simp only [Option.map, ofOptStr, ok_bind, isNone_none, if_true, dict_setitem_str] at hn ⊢
      exact evaluate_tail O m _ _ (EnvRel_set h1 Mk.s_extra (some [])) hn
    | some s =>
      simp only [Option.map, ofOptStr, ok_bind, isNone_str, Bool.false_eq_true, if_false] at hn ⊢
      exact evaluate_tail O m _ _ h1 hn

/-- keys pairwise distinct: the items of a dict -/
theorem DfltDict_of_nodup (O : PyMk.Oracle) (h : (O.dflt.map Prod.fst).Nodup) : DfltDict O := by
  unfold DfltDict
  generalize O.dflt = l at h
  induction l with
  | nil => exact EnvRel_nil
  | cons p r ih =>
    obtain ⟨k, v⟩ := p
    simp only [List.map_cons, List.nodup_cons] at h
    intro k'
    have e1 : ((k, some v) :: r.map fun p => (p.1, some p.2)) = [(k, some v)] ++ r.map fun p => (p.1, some p.2) := rfl
    simp only [List.map_cons, dictLookup, eq_str, e1, MkEval.get?_append, MkEval.get?_single, ih h.2 k']
    by_cases hk : k = k'
    · subst hk
      have : Mk.Env.get? (r.map fun p => (p.1, some p.2)) k = none := by
        cases hg : Mk.Env.get? (r.map fun p => (p.1, some p.2)) k with
        | none => rfl
        | some x =>
          exfalso
          apply h.1
          simp only [Mk.Env.get?] at hg
          cases hf : List.find? (fun p => p.1 == k) (r.map fun p => (p.1, some p.2)).reverse with
          | none => simp [hf] at hg
          | some q =>
            have h1 := List.find?_some hf
            have h2 := List.mem_of_find?_eq_some hf
            simp only [List.mem_reverse, List.mem_map] at h2
            obtain ⟨a, ha, rfl⟩ := h2
            simp only [beq_iff_eq] at h1
            exact List.mem_map.2 ⟨a, ha, h1⟩
      simp [this, ofOptStr]
    · have hb : (k == k') = false := by simpa using hk
      simp only [hb, Bool.false_eq_true, if_false, hk]
      cases Mk.Env.get? (r.map fun p => (p.1, some p.2)) k' <;> rfl

theorem Marker.evaluate_eq_model (O : PyMk.Oracle) (hd : (O.dflt.map Prod.fst).Nodup) (supplied : Option Mk.Env)
    (m : List Mk.M) (hn : ∀ env, Mk.buildEnv O.dflt supplied = .ok env → NoNone env) :
    Gen.PySrc.Marker.evaluate O.ext (ofMarker m) (ofSupplied supplied) =
      ofRes PyVal.bool (Mk.evaluate O.toExt O.dflt supplied m) :=
  Marker.evaluate_eq_model' O (DfltDict_of_nodup O hd) supplied m hn

/-! ### the hypothesis on the default environment is needed

`Oracle.ext` hands `O.dflt` to the translated code as the item list of a dict, where a lookup finds the *first* binding
of a key; the model's `Env.get?` finds the *last*.  With a repeated key the two sides disagree. -/

def cexOracle : PyMk.Oracle where
  canon := id
  specOk := fun _ => false
  specContains := fun _ _ => none
  dflt := [(Mk.s_pfv, [49]), (Mk.s_pfv, [50])]

/-- `python_full_version == "1"` -/
def cexMarker : List Mk.M := [.atom ⟨.var Mk.s_pfv, [61, 61], .val [49]⟩]

theorem Marker.evaluate_dup_keys_counterexample :
    (∀ env, Mk.buildEnv cexOracle.dflt none = .ok env → NoNone env) ∧
    Gen.PySrc.Marker.evaluate cexOracle.ext (ofMarker cexMarker) (ofSupplied none) = .ok (.bool true) ∧
    ofRes PyVal.bool (Mk.evaluate cexOracle.toExt cexOracle.dflt none cexMarker) = .ok (.bool false) := by
  refine ⟨?_, by rfl, by rfl⟩
  intro env h
  have h' : Mk.buildEnv cexOracle.dflt none =
      .ok [(Mk.s_pfv, some [49]), (Mk.s_pfv, some [50]), (Mk.s_extra, some [])] := by rfl
  rw [h'] at h
  cases h
  intro k hk
  simp only [Mk.Env.get?, List.reverse_cons, List.reverse_nil, List.nil_append, List.cons_append, List.find?_cons,
    List.find?_nil] at hk
  split at hk <;> rename_i hf
  · split at hf
    · cases hf; cases hk
    · split at hf
      · cases hf; cases hk
      · split at hf
        · cases hf; cases hk
        · cases hf
  · cases hk

/-! ## `format_full_version` -/

theorem ofs_final : ofString "final" = [102, 105, 110, 97, 108] := by rfl
theorem ofs_dot : ofString "." = [46] := by rfl

/-- `format_full_version(info)`; `none` = `IndexError` (`kind[0]` of an empty release level) -/
def formatFullVersion (major minor micro : Nat) (level : Str) (serial : Nat) : Option Str :=
  let v := dec major ++ [46] ++ dec minor ++ [46] ++ dec micro
  if level == [102, 105, 110, 97, 108] then some v
  else match level with
    | [] => none
    | c :: _ => some (v ++ ([c] ++ dec serial))

theorem getitem_str_zero (c : Nat) (s : Str) : getitem (.str (c :: s)) (.int 0) = .ok (.str [c]) := by
  simp [getitem, asInt, normIndex]

theorem getitem_str_nil_zero : getitem (.str []) (.int 0) = .error "IndexError" := by
  simp [getitem, asInt, normIndex, indexError]

theorem format_full_version_eq_model (major minor micro : Nat) (level : Str) (serial : Nat) :
    Gen.PySrc.format_full_version (.obj "version_info" [("major", .int major), ("minor", .int minor),
        ("micro", .int micro), ("releaselevel", .str level), ("serial", .int serial)]) =
      match formatFullVersion major minor micro level serial with
      | some s => .ok (.str s)
      | none => .error "IndexError" := by
  unfold Gen.PySrc.format_full_version formatFullVersion
  simp (config := {decide := true}) only [getattr_obj, lookupField_cons, lookupField_nil, BEq.rfl, if_true, if_false, ok_bind, format_nat,
    pure_ok, ofs_final, ofs_dot, eq_str, str_nat, Bool.false_eq_true]
  cases hl : level == [102, 105, 110, 97, 108] with
  | true => simp
  | false =>
    cases level with
    | nil => simp [getitem_str_nil_zero]
    | cons c r => simp [getitem_str_zero, add]

end Src
