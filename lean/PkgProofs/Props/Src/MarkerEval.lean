import PkgModel.Generated.PySrc
import PkgModel.PyMarker
import PkgProofs.Lemmas.PyRt
import PkgProofs.Lemmas.MarkerEval
/-!
# Translated source of the evaluation part of `packaging/markers.py` = the model (`Mk.evalOp`, `Mk.normalize`,
`Mk.lookupEnv`, `Mk.evalMarkers`, `Mk.buildEnv`, `Mk.evaluate`)
-/
namespace Src
open PyRt Py PyMk

theorem _eval_op_translated : Gen.PySrc._eval_op_supported = true := rfl
theorem _normalize_translated : Gen.PySrc._normalize_supported = true := rfl
theorem _get_env_translated : Gen.PySrc._get_env_supported = true := rfl
theorem _evaluate_markers_translated : Gen.PySrc._evaluate_markers_supported = true := rfl
theorem _repair_python_full_version_translated : Gen.PySrc._repair_python_full_version_supported = true := rfl
theorem format_full_version_translated : Gen.PySrc.format_full_version_supported = true := rfl
theorem Marker.evaluate_translated : Gen.PySrc.Marker.evaluate_supported = true := rfl

/-! ## string order, `in` -/

theorem strOrd_cons (a b : Nat) (s t : Str) :
    strOrd (a :: s) (b :: t) = if a < b then .lt else if b < a then .gt else strOrd s t := by
  simp only [strOrd, Ordering.then]
  by_cases h1 : a < b
  · rw [Nat.compare_eq_lt.2 h1]; simp [h1]
  · by_cases h2 : b < a
    · rw [Nat.compare_eq_gt.2 h2]; simp [h1, h2]
    · rw [Nat.compare_eq_eq.2 (by omega)]; simp [h1, h2]

theorem strCmp_lt (a b : Str) : strCmp .lt a b = strLt a b := by
  induction a generalizing b with
  | nil => cases b <;> simp [strCmp, strLt, strOrd, Cmp.onLen]
  | cons x s ih =>
    cases b with
    | nil => simp [strCmp, strLt, strOrd, Cmp.onLen]
    | cons y t =>
      have := ih t
      simp only [strLt] at this
      simp only [strCmp, strLt, strOrd_cons, this, Cmp.onLen]
      by_cases h : x = y
      · subst h; simp
      · by_cases h1 : x < y
        · simp [h, h1]
        · have : y < x := by omega
          simp [h, h1, this]

theorem strCmp_le (a b : Str) : strCmp .le a b = strLe a b := by
  induction a generalizing b with
  | nil => cases b <;> simp [strCmp, strLe, strOrd, Cmp.onLen]
  | cons x s ih =>
    cases b with
    | nil => simp [strCmp, strLe, strOrd, Cmp.onLen]
    | cons y t =>
      have := ih t
      simp only [strLe] at this
      simp only [strCmp, strLe, strOrd_cons, this, Cmp.onLen]
      by_cases h : x = y
      · subst h; simp
      · by_cases h1 : x < y
        · have : x ≤ y := by omega
          simp [h, h1, this]
        · have : y < x := by omega
          simp [h, h1, this]

theorem strCmp_gt (a b : Str) : strCmp .gt a b = strLt b a := by
  induction a generalizing b with
  | nil => cases b <;> simp [strCmp, strLt, strOrd, Cmp.onLen]
  | cons x s ih =>
    cases b with
    | nil => simp [strCmp, strLt, strOrd, Cmp.onLen]
    | cons y t =>
      have := ih t
      simp only [strLt] at this
      simp only [strCmp, strLt, strOrd_cons, this, Cmp.onLen]
      by_cases h : x = y
      · subst h; simp
      · by_cases h1 : x < y
        · have : ¬ y < x := by omega
          simp [h, h1, this]
        · have : y < x := by omega
          simp [h, this]

theorem strCmp_ge (a b : Str) : strCmp .ge a b = strLe b a := by
  induction a generalizing b with
  | nil => cases b <;> simp [strCmp, strLe, strOrd, Cmp.onLen]
  | cons x s ih =>
    cases b with
    | nil => simp [strCmp, strLe, strOrd, Cmp.onLen]
    | cons y t =>
      have := ih t
      simp only [strLe] at this
      simp only [strCmp, strLe, strOrd_cons, this, Cmp.onLen]
      by_cases h : x = y
      · subst h; simp
      · by_cases h1 : x < y
        · have : ¬ y < x := by omega
          simp [h, h1, this]
        · have : y < x := by omega
          simp [h, this]; omega

theorem isInfix_eq (hay needle : Str) : PyRt.isInfix hay needle = Mk.isInfix needle hay := by
  induction hay with
  | nil => cases needle <;> simp [PyRt.isInfix, Mk.isInfix]
  | cons c s ih =>
    cases needle with
    | nil => simp [PyRt.isInfix, Mk.isInfix, startsWith]
    | cons n ns => simp only [PyRt.isInfix, Mk.isInfix, ih]


theorem fn_key_ref (k : PyVal) : fn_key "_operators" (fn_ref "_operators" k) = .ok k := by
  simp [fn_key, fn_ref]

theorem in_str (a b : Str) : in_ (.str a) (.str b) = .ok (.bool (Mk.isInfix a b)) := by
  simp [in_, contains, isInfix_eq]
theorem not_in_str (a b : Str) : not_in (.str a) (.str b) = .ok (.bool (!Mk.isInfix a b)) := by
  simp [not_in, contains, isInfix_eq]
theorem lt_str (a b : Str) : lt (.str a) (.str b) = .ok (.bool (strLt a b)) := by
  simp [lt, cmp, strCmp_lt]
theorem le_str (a b : Str) : le (.str a) (.str b) = .ok (.bool (strLe a b)) := by
  simp [le, cmp, strCmp_le]
theorem gt_str (a b : Str) : gt (.str a) (.str b) = .ok (.bool (strLt b a)) := by
  simp [gt, cmp, strCmp_gt]
theorem ge_str (a b : Str) : ge (.str a) (.str b) = .ok (.bool (strLe b a)) := by
  simp [ge, cmp, strCmp_ge]
theorem eq_str_str (a b : Str) : PyRt.eq (.str a) (.str b) = .bool (a == b) := by simp [PyRt.eq]
theorem ne_str_str (a b : Str) : PyRt.ne (.str a) (.str b) = .bool (a != b) := by simp [PyRt.ne, bne]

/-- what the operator table does for the key `op` -/
def opResult (lhs op rhs : Str) : Option (Option Bool) :=
  (Gen.MarkerTok.opTable.lookup op).map fun id => Mk.applyOp id lhs rhs

theorem ofs_in : ofString "in" = [105, 110] := by rfl
theorem ofs_not_in : ofString "not in" = [110, 111, 116, 32, 105, 110] := by rfl
theorem ofs_lt : ofString "<" = [60] := by rfl
theorem ofs_le : ofString "<=" = [60, 61] := by rfl
theorem ofs_eq : ofString "==" = [61, 61] := by rfl
theorem ofs_ne : ofString "!=" = [33, 61] := by rfl
theorem ofs_ge : ofString ">=" = [62, 61] := by rfl
theorem ofs_gt : ofString ">" = [62] := by rfl

/-- case analysis on a key of the operator table -/
theorem opKey_cases (P : Str → Prop) (hin : ∀ k ∈ Gen.MarkerTok.opTable.map (·.1), P k)
    (hout : ∀ op, (∀ k ∈ Gen.MarkerTok.opTable.map (·.1), op ≠ k) → P op) (op : Str) : P op := by
  by_cases h : op ∈ Gen.MarkerTok.opTable.map (·.1)
  · exact hin op h
  · exact hout op (fun k hk e => h (e ▸ hk))

theorem lookup_none_of_not_mem {β} (l : List (Str × β)) (op : Str) (h : ∀ k ∈ l.map (·.1), op ≠ k) :
    l.lookup op = none := by
  induction l with
  | nil => rfl
  | cons p r ih =>
    obtain ⟨k, v⟩ := p
    have h1 : (op == k) = false := by simpa using h k (by simp)
    simp only [List.lookup, h1]
    exact ih (fun k' hk' => h k' (by simp at hk' ⊢; exact Or.inr hk'))

theorem _operators__get_str (op : Str) : Gen.PySrc._operators__get (.str op) =
    .ok (if (Gen.MarkerTok.opTable.lookup op).isSome then fn_ref "_operators" (.str op) else .none) := by
  revert op
  apply opKey_cases
  · intro k hk
    simp only [Gen.MarkerTok.opTable, List.map, List.mem_cons, List.not_mem_nil, or_false] at hk
    rcases hk with rfl | rfl | rfl | rfl | rfl | rfl | rfl | rfl <;> rfl
  · intro op h
    rw [lookup_none_of_not_mem _ op h]
    simp only [Gen.MarkerTok.opTable, List.map, List.mem_cons, List.not_mem_nil, or_false, forall_eq_or_imp, forall_eq] at h
    unfold Gen.PySrc._operators__get
    simp [hashable, ofs_in, ofs_not_in, ofs_lt, ofs_le, ofs_eq, ofs_ne, ofs_ge, ofs_gt, h]

theorem _operators__call_str (lhs op rhs : Str) :
    Gen.PySrc._operators__call (fn_ref "_operators" (.str op)) (.str lhs) (.str rhs) =
      match Gen.MarkerTok.opTable.lookup op with
      | some id => (match Mk.applyOp id lhs rhs with | some b => .ok (.bool b) | none => .error "TypeError")
      | none => .error "PyRtUnsupported" := by
  unfold Gen.PySrc._operators__call
  simp only [fn_key_ref, ok_bind, eq_str, in_str, not_in_str, lt_str, le_str, gt_str, ge_str, eq_str_str, ne_str_str, pure_ok]
  revert op
  apply opKey_cases
  · intro k hk
    simp only [Gen.MarkerTok.opTable, List.map, List.mem_cons, List.not_mem_nil, or_false] at hk
    rcases hk with rfl | rfl | rfl | rfl | rfl | rfl | rfl | rfl <;> rfl
  · intro op h
    rw [lookup_none_of_not_mem _ op h]
    simp only [Gen.MarkerTok.opTable, List.map, List.mem_cons, List.not_mem_nil, or_false, forall_eq_or_imp, forall_eq] at h
    simp [ofs_in, ofs_not_in, ofs_lt, ofs_le, ofs_eq, ofs_ne, ofs_ge, ofs_gt, h]

/-! ## the oracle, `_eval_op` -/

@[simp] theorem Node.__str___obj (c : String) (v : PyVal) : Gen.PySrc.Node.__str__ (.obj c [("value", v)]) = .ok v := by
  simp [Gen.PySrc.Node.__str__]

@[simp] theorem Op.serialize_ofOp (op : Str) : Gen.PySrc.Op.serialize (ofOp op) = .ok (.str op) := by
  simp [Gen.PySrc.Op.serialize, ofOp]

theorem str_join_empty_pair (a b : Str) : str_join (.str (ofString "")) (.list [.str a, .str b]) = .ok (.str (a ++ b)) := by
  have := str_join_empty_list [a, b]
  simpa [show ofString "" = ([] : Str) from rfl] using this

theorem ext_Specifier (O : PyMk.Oracle) (s : Str) :
    ext_call O.ext "Specifier" [.str s, .none] = if O.specOk s then .ok (specObj s) else .error "InvalidSpecifier" := by
  rfl

theorem ext_contains (O : PyMk.Oracle) (s v : Str) :
    ext_call O.ext "Specifier.contains" [specObj s, .str v, .bool true] =
      match O.specContains s v with | some b => .ok (.bool b) | none => .error "InvalidVersion" := by
  rfl

theorem ext_canon (O : PyMk.Oracle) (s : Str) :
    ext_call O.ext "canonicalize_name" [.str s, .bool false] = .ok (.str (O.canon s)) := by
  rfl

theorem ext_dflt (O : PyMk.Oracle) :
    ext_call O.ext "default_environment" [] = .ok (.dict (O.dflt.map fun p => (.str p.1, .str p.2))) := by
  rfl

/-! ### what `do` notation leaves behind for mutable locals across `try` (a `StateT` layer) and for `return` inside
`try` (an `ExceptT` layer) -/

@[simp] theorem stateT_pure_apply {σ α : Type} (a : α) (s : σ) : (pure a : StateT σ M α) s = .ok (a, s) := by rfl
@[simp] theorem earlyReturn_eq {ρ α : Type} (r : ρ) :
    (EarlyReturnT.return r : EarlyReturnT ρ M α) = (Except.ok (Except.error r) : M (Except ρ α)) := by rfl
@[simp] theorem runK_ok {ρ α β : Type} (a : α) (ret : ρ → β) (k : α → β) : EarlyReturn.runK (Except.ok a) ret k = k a := by rfl
@[simp] theorem runK_error {ρ α β : Type} (r : ρ) (ret : ρ → β) (k : α → β) : EarlyReturn.runK (Except.error r) ret k = ret r := by
  rfl
@[simp] theorem exceptT_run_pure {ρ α : Type} (a : α) :
    ExceptT.run (pure a : ExceptT ρ M α) = (Except.ok (Except.ok a) : M (Except ρ α)) := by rfl

@[simp] theorem isNone_fn_ref (t : String) (k : PyVal) : isNone (fn_ref t k) = false := by rfl

/-- the part of `_eval_op` after the two `try` blocks: look the operator up and apply it -/
theorem operators_tail (lhs op rhs : Str) :
    (do let oper ← Gen.PySrc._operators__get (PyVal.str op)
        if isNone oper = true then do
            (throw "UndefinedComparison" : M PUnit)
            Gen.PySrc._operators__call oper (PyVal.str lhs) (PyVal.str rhs)
          else Gen.PySrc._operators__call oper (PyVal.str lhs) (PyVal.str rhs)) =
      ofRes PyVal.bool (match Gen.MarkerTok.opTable.lookup op with
        | none => .error .undefinedComparison
        | some id => match Mk.applyOp id lhs rhs with
          | some b => .ok b
          | none => .error (.raw .typeError)) := by
  simp only [_operators__get_str, ok_bind]
  cases h : Gen.MarkerTok.opTable.lookup op with
  | none => simp [ofRes, excName]
  | some id =>
    simp only [Option.isSome_some, if_true, isNone_fn_ref, _operators__call_str, h, Bool.false_eq_true, if_false]
    cases Mk.applyOp id lhs rhs <;> rfl

theorem _eval_op_eq_model (O : PyMk.Oracle) (lhs op rhs : Str) :
    Gen.PySrc._eval_op O.ext (.str lhs) (ofOp op) (.str rhs) = ofRes PyVal.bool (Mk.evalOp O.toExt lhs op rhs) := by
  unfold Gen.PySrc._eval_op Mk.evalOp
  simp only [Op.serialize_ofOp, ok_bind, str_join_empty_pair, ext_Specifier, operators_tail, Oracle.toExt]
  have c1 : catches "InvalidSpecifier" "InvalidSpecifier" = true := by decide
  have c2 : catches "InvalidVersion" "InvalidVersion" = true := by decide
  cases hs : O.specOk (op ++ rhs) with
  | false => simp [c1]; rfl
  | true =>
    simp only [if_true, ok_bind, stateT_pure_apply, tryCatch_ok', ext_contains]
    cases hc : O.specContains (op ++ rhs) lhs with
    | none => simp [c2]; rfl
    | some b => simp [ofRes]

/-! ## `_normalize`, `_get_env` -/

theorem ofs_extra : ofString "extra" = Mk.s_extra := by rfl

theorem _normalize_eq_model (O : PyMk.Oracle) (l r key : Str) :
    Gen.PySrc._normalize O.ext (.tuple [.str l, .str r]) (.str key) =
      .ok (.tuple [.str (Mk.normalize O.toExt l r key).1, .str (Mk.normalize O.toExt l r key).2]) := by
  unfold Gen.PySrc._normalize Mk.normalize
  simp only [eq_str, ofs_extra]
  cases h : key == Mk.s_extra with
  | false => simp
  | true =>
    simp only [if_true]
    rw [genexp_ok _ (fun v => match v with | .str s => .str (O.canon s) | v => v) _ [.str l, .str r] (by simp)]
    · simp [Oracle.toExt]
    · intro x hx
      simp only [List.mem_cons, List.not_mem_nil, or_false] at hx
      rcases hx with rfl | rfl <;> simp [ext_canon]

theorem dict_getitem_str (d : List (PyVal × PyVal)) (k : Str) : dict_getitem (.dict d) (.str k) =
    match dictLookup d (.str k) with | some v => .ok v | none => .error "KeyError" := by
  simp only [dict_getitem, hashable]
  cases dictLookup d (.str k) <;> rfl

theorem _get_env_eq_model (d : List (PyVal × PyVal)) (e : Mk.Env) (h : EnvRel d e) (hn : NoNone e) (k : Str) :
    Gen.PySrc._get_env (.dict d) (.str k) = ofRes PyVal.str (Mk.lookupEnv e k) := by
  unfold Gen.PySrc._get_env Mk.lookupEnv
  simp only [dict_getitem_str, h k]
  have c : catches "KeyError" "KeyError" = true := by decide
  cases hg : e.get? k with
  | none => simp [c, ofRes, excName]
  | some o =>
    cases o with
    | none => exact absurd hg (hn k)
    | some v => simp [ofOptStr, ofRes]

end Src
