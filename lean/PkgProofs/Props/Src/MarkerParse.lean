import PkgModel.Generated.PySrc
import PkgModel.PyParser
import PkgProofs.Lemmas.PyRt
import PkgProofs.Lemmas.SrcRobust
/-!
# Translated source of the marker parser (`_parser.py`) = the model (`Mk.parse…`)
-/
set_option linter.unusedSimpArgs false   -- x8: the simp sets list the lemmas of every accepted spelling
namespace Src
open PyRt Py PyMk PyPar

/-! ## the `StateT` layer of `PyTok.TM` -/
namespace TM
open PyTok

theorem run_bind {α β} (x : TM α) (f : α → TM β) (s : St) :
    (x >>= f).run s = (x.run s >>= fun p => (f p.1).run p.2) := by rfl
theorem run_bind_ok {α β} {x : TM α} {f : α → TM β} {s s' : St} {a : α} (e : x.run s = .ok (a, s')) :
    (x >>= f).run s = (f a).run s' := by rw [run_bind, e, ok_bind]
theorem run_bind_err {α β} {x : TM α} {f : α → TM β} {s : St} {err : PyExc} (e : x.run s = .error err) :
    (x >>= f).run s = .error err := by rw [run_bind, e, err_bind]
theorem run_pure {α} (a : α) (s : St) : (pure a : TM α).run s = .ok (a, s) := by rfl
theorem run_lift {α} (x : M α) (s : St) : (liftM x : TM α).run s = (x >>= fun a => .ok (a, s)) := by rfl
theorem run_lift_ok {α} (x : M α) (a : α) (s : St) (h : x = .ok a) : (liftM x : TM α).run s = .ok (a, s) := by
  subst h; rfl
theorem run_get (s : St) : (get : TM St).run s = .ok (s, s) := by rfl
theorem run_set (s s' : St) : (set s' : TM PUnit).run s = .ok (PUnit.unit, s') := by rfl
theorem run_throw {α} (e : PyExc) (s : St) : (throw e : TM α).run s = .error e := by rfl
theorem run_tryCatch {α} (x : TM α) (h : PyExc → TM α) (s : St) :
    (tryCatch x h).run s = tryCatch (x.run s) (fun e => (h e).run s) := by rfl
theorem run_ite {α} (c : Prop) [Decidable c] (x y : TM α) (s : St) :
    (if c then x else y).run s = if c then x.run s else y.run s := by
  split <;> rfl
/-- `return r` inside a `try` block -/
theorem run_earlyReturn {ρ α : Type} (r : ρ) (s : St) :
    StateT.run (EarlyReturnT.return r : EarlyReturnT ρ TM α) s = .ok (.error r, s) := by rfl
/-- the end of a `try` block / handler that did not `return` -/
theorem run_exceptT_pure {ρ α : Type} (a : α) (s : St) :
    StateT.run (ExceptT.run (pure a : EarlyReturnT ρ TM α)) s = .ok (.ok a, s) := by rfl

end TM

/-! ## the primitives of the tokenizer against `Mk.St.check` -/

/-- the tokenizer after `read()` of a token with text `t` -/
def adv (s : PyTok.St) (t : Str) : PyTok.St := ⟨s.pre ++ t, Mk.lastOr t s.prev, s.rest.drop t.length, none⟩
/-- the tokenizer between a successful `check(name)` and `read()` -/
def pend (s : PyTok.St) (n t : Str) : PyTok.St := { s with next := some (n, t) }
/-- the `Token` object -/
def tokObj (s : PyTok.St) (n t : Str) : PyVal :=
  .obj "Token" [("name", .str n), ("text", .str t), ("position", .int s.pre.length)]

theorem drop_take_length (l : Str) (n : Nat) : l.drop (l.take n).length = l.drop n := by
  rw [List.length_take]
  by_cases h : n ≤ l.length
  · rw [Nat.min_eq_left h]
  · rw [Nat.min_eq_right (by omega), List.drop_of_length_le (by omega), List.drop_of_length_le (by omega)]

theorem tokrel_adv {s : PyTok.St} {m m' : Mk.St} {r : Mk.Rule} {t : Str}
    (h : TokRel s m) (hc : Mk.St.check r m = some (t, m')) : TokRel (adv s t) m' := by
  obtain ⟨hp, hr, hn⟩ := h
  unfold Mk.St.check at hc
  split at hc
  · cases hc
  · rename_i k hk
    simp only [Option.some.injEq, Prod.mk.injEq] at hc
    obtain ⟨rfl, rfl⟩ := hc
    refine ⟨?_, ?_, rfl⟩
    · simp [adv, hp, hr]
    · simp [adv, hr]

theorem check_none {s : PyTok.St} {m : Mk.St} {n : Str} {r : Mk.Rule} (h : TokRel s m)
    (hr : PyTok.ruleOf n = some (.mk r)) (hc : Mk.St.check r m = none) (peek : PyVal) :
    (PyTok.check (.str n) peek).run s = .ok (.bool false, s) := by
  obtain ⟨hp, hrest, hn⟩ := h
  have hm : Mk.matchRule r s.prev s.rest = none := by
    unfold Mk.St.check at hc
    rw [hp, hrest]
    split at hc
    · assumption
    · cases hc
  simp only [PyTok.check, TM.run_bind, TM.run_get, ok_bind, hn, hr, PyTok.matchAny, hm, Option.isSome_none,
    Bool.false_eq_true, if_false, TM.run_pure]

theorem matchRule_of_check {s : PyTok.St} {m m' : Mk.St} {r : Mk.Rule} {t : Str} (h : TokRel s m)
    (hc : Mk.St.check r m = some (t, m')) : ∃ k, Mk.matchRule r s.prev s.rest = some k ∧ s.rest.take k = t := by
  obtain ⟨hp, hrest, hn⟩ := h
  unfold Mk.St.check at hc
  rw [hp, hrest]
  split at hc
  · cases hc
  · rename_i k hk
    simp only [Option.some.injEq, Prod.mk.injEq] at hc
    exact ⟨k, hk, hc.1⟩

theorem check_some {s : PyTok.St} {m m' : Mk.St} {n : Str} {r : Mk.Rule} {t : Str} (h : TokRel s m)
    (hr : PyTok.ruleOf n = some (.mk r)) (hc : Mk.St.check r m = some (t, m')) :
    (PyTok.check (.str n) (.bool false)).run s = .ok (.bool true, pend s n t) := by
  obtain ⟨k, hm, ht⟩ := matchRule_of_check h hc
  obtain ⟨hp, hrest, hn⟩ := h
  simp only [PyTok.check, TM.run_bind, TM.run_get, ok_bind, hn, hr, PyTok.matchAny, hm, Option.isSome_none,
    Bool.false_eq_true, if_false, TM.run_pure, truthy_bool, Bool.not_false, if_true, TM.run_set, ht, pend]

/-- `check(name, peek=True)` -/
theorem check_peek_some {s : PyTok.St} {m m' : Mk.St} {n : Str} {r : Mk.Rule} {t : Str} (h : TokRel s m)
    (hr : PyTok.ruleOf n = some (.mk r)) (hc : Mk.St.check r m = some (t, m')) :
    (PyTok.check (.str n) (.bool true)).run s = .ok (.bool true, s) := by
  obtain ⟨k, hm, ht⟩ := matchRule_of_check h hc
  obtain ⟨hp, hrest, hn⟩ := h
  simp only [PyTok.check, TM.run_bind, TM.run_get, ok_bind, hn, hr, PyTok.matchAny, hm, Option.isSome_none,
    Bool.false_eq_true, if_false, TM.run_pure, truthy_bool, Bool.not_true]

theorem read_pend (s : PyTok.St) (n t : Str) : PyTok.read.run (pend s n t) = .ok (tokObj s n t, adv s t) := by
  simp only [PyTok.read, TM.run_bind, TM.run_get, ok_bind, pend, TM.run_set, TM.run_pure, tokObj, adv]

@[simp] theorem getattr_tok_text (s n t) : getattr (tokObj s n t) "text" = .ok (.str t) := by rfl

theorem expect_some {s : PyTok.St} {m m' : Mk.St} {n : Str} {r : Mk.Rule} {t : Str} (h : TokRel s m)
    (hr : PyTok.ruleOf n = some (.mk r)) (hc : Mk.St.check r m = some (t, m')) :
    (PyTok.expect (.str n)).run s = .ok (tokObj s n t, adv s t) := by
  simp only [PyTok.expect, TM.run_bind, check_some h hr hc, ok_bind, truthy_bool, Bool.not_true, Bool.false_eq_true,
    if_false, read_pend]

theorem expect_none {s : PyTok.St} {m : Mk.St} {n : Str} {r : Mk.Rule} (h : TokRel s m)
    (hr : PyTok.ruleOf n = some (.mk r)) (hc : Mk.St.check r m = none) :
    (PyTok.expect (.str n)).run s = .error "ParserSyntaxError" := by
  simp only [PyTok.expect, TM.run_bind, check_none h hr hc, ok_bind, truthy_bool, Bool.not_false,
    if_true, TM.run_throw, err_bind]

theorem consume_some {s : PyTok.St} {m m' : Mk.St} {n : Str} {r : Mk.Rule} {t : Str} (h : TokRel s m)
    (hr : PyTok.ruleOf n = some (.mk r)) (hc : Mk.St.check r m = some (t, m')) :
    (PyTok.consume (.str n)).run s = .ok (.none, adv s t) := by
  simp only [PyTok.consume, TM.run_bind, check_some h hr hc, ok_bind, truthy_bool,
    if_true, TM.run_pure, read_pend]

theorem consume_none {s : PyTok.St} {m : Mk.St} {n : Str} {r : Mk.Rule} (h : TokRel s m)
    (hr : PyTok.ruleOf n = some (.mk r)) (hc : Mk.St.check r m = none) :
    (PyTok.consume (.str n)).run s = .ok (.none, s) := by
  simp only [PyTok.consume, TM.run_bind, check_none h hr hc, ok_bind, truthy_bool, Bool.false_eq_true,
    if_false, TM.run_pure]

theorem charTS_check (r : Mk.Rule) (m : Mk.St) : Mk.charTS.check r m = Mk.St.check r m := by rfl

/-- `tokenizer.consume(name)` is `Mk.consume` -/
theorem consume_run {s : PyTok.St} {m : Mk.St} {n : Str} {r : Mk.Rule} (h : TokRel s m)
    (hr : PyTok.ruleOf n = some (.mk r)) :
    ∃ s', (PyTok.consume (.str n)).run s = .ok (.none, s') ∧ TokRel s' (Mk.consume Mk.charTS r m) := by
  simp only [Mk.consume, charTS_check]
  cases hc : Mk.St.check r m with
  | none => exact ⟨s, consume_none h hr hc, h⟩
  | some p =>
    obtain ⟨t, m'⟩ := p
    exact ⟨adv s t, consume_some h hr hc, tokrel_adv h hc⟩

theorem pend_pre (s : PyTok.St) (n t : Str) : (pend s n t).pre = s.pre := by rfl

theorem position_run (s : PyTok.St) : PyTok.position.run s = .ok (.int s.pre.length, s) := by
  simp only [PyTok.position, TM.run_bind, TM.run_get, ok_bind, TM.run_pure]

theorem enclosing_open_some {s : PyTok.St} {m m' : Mk.St} {n : Str} {r : Mk.Rule} {t : Str} (h : TokRel s m)
    (hr : PyTok.ruleOf n = some (.mk r)) (hc : Mk.St.check r m = some (t, m')) :
    (PyTok.enclosing_open (.str n)).run s = .ok (.int s.pre.length, adv s t) := by
  simp only [PyTok.enclosing_open, TM.run_bind, check_some h hr hc, ok_bind, truthy_bool,
    if_true, TM.run_pure, read_pend, position_run, pend_pre]

theorem enclosing_open_none {s : PyTok.St} {m : Mk.St} {n : Str} {r : Mk.Rule} (h : TokRel s m)
    (hr : PyTok.ruleOf n = some (.mk r)) (hc : Mk.St.check r m = none) :
    (PyTok.enclosing_open (.str n)).run s = .ok (.none, s) := by
  simp only [PyTok.enclosing_open, TM.run_bind, check_none h hr hc, ok_bind, truthy_bool, Bool.false_eq_true,
    if_false, TM.run_pure]

theorem enclosing_close_some {s : PyTok.St} {m m' : Mk.St} {n : Str} {r : Mk.Rule} {t : Str} (p : Int) (h : TokRel s m)
    (hr : PyTok.ruleOf n = some (.mk r)) (hc : Mk.St.check r m = some (t, m')) :
    (PyTok.enclosing_close (.int p) (.str n)).run s = .ok (.none, adv s t) := by
  simp only [PyTok.enclosing_close, isNone_int, Bool.false_eq_true, if_false, TM.run_bind, check_some h hr hc, ok_bind,
    truthy_bool, Bool.not_true, TM.run_pure, read_pend]

theorem enclosing_close_none {s : PyTok.St} {m : Mk.St} {n : Str} {r : Mk.Rule} (p : Int) (h : TokRel s m)
    (hr : PyTok.ruleOf n = some (.mk r)) (hc : Mk.St.check r m = none) :
    (PyTok.enclosing_close (.int p) (.str n)).run s = .error "ParserSyntaxError" := by
  simp only [PyTok.enclosing_close, isNone_int, Bool.false_eq_true, if_false, TM.run_bind, check_none h hr hc, ok_bind,
    truthy_bool, Bool.not_false, if_true, TM.run_throw, err_bind]

/-! ### the rule names -/
theorem rule_ws : PyTok.ruleOf (ofString "WS") = some (.mk .ws) := by rfl
theorem rule_variable : PyTok.ruleOf (ofString "VARIABLE") = some (.mk .variable) := by rfl
theorem rule_quoted : PyTok.ruleOf (ofString "QUOTED_STRING") = some (.mk .quoted) := by rfl
theorem rule_in : PyTok.ruleOf (ofString "IN") = some (.mk .kwIn) := by rfl
theorem rule_not : PyTok.ruleOf (ofString "NOT") = some (.mk .kwNot) := by rfl
theorem rule_op : PyTok.ruleOf (ofString "OP") = some (.mk .op) := by rfl
theorem rule_boolop : PyTok.ruleOf (ofString "BOOLOP") = some (.mk .boolop) := by rfl
theorem rule_lparen : PyTok.ruleOf (ofString "LEFT_PARENTHESIS") = some (.mk .lparen) := by rfl
theorem rule_rparen : PyTok.ruleOf (ofString "RIGHT_PARENTHESIS") = some (.mk .rparen) := by rfl
theorem rule_end : PyTok.ruleOf (ofString "END") = some (.mk .end_) := by rfl

/-! ## translated -/

theorem process_env_var_translated : Gen.PySrc.process_env_var_supported = true := rfl
theorem process_python_str_translated : Gen.PySrc.process_python_str_supported = true := rfl
theorem _parse_marker_var_translated : Gen.PySrc._parse_marker_var_supported = true := rfl
theorem _parse_marker_op_translated : Gen.PySrc._parse_marker_op_supported = true := rfl
theorem _parse_marker_item_translated : Gen.PySrc._parse_marker_item_supported = true := rfl
theorem _parse_marker_atom_translated : Gen.PySrc._parse_marker_atom_supported = true := rfl
theorem _parse_marker_translated : Gen.PySrc._parse_marker_supported = true := rfl
theorem _parse_full_marker_translated : Gen.PySrc._parse_full_marker_supported = true := rfl
theorem parse_marker_translated : Gen.PySrc.parse_marker_supported = true := rfl

/-! ## `process_env_var`, `process_python_str` -/

theorem node_init (c : String) (v : PyVal) : Gen.PySrc.Node.__init__ (.obj c []) v = .ok (.obj c [("value", v)]) := by rfl

theorem s_ppi : ofString "platform_python_implementation" = Mk.s_platform_python_implementation := by rfl
theorem s_pi : ofString "python_implementation" = Mk.s_python_implementation := by rfl

/-- `process_env_var` on the text after `.replace(".", "_")` -/
theorem process_env_var_eq_model (t : Str) :
    Gen.PySrc.process_env_var (.str (t.map fun c => if c == 46 then 95 else c)) = .ok (ofNode (Mk.processEnvVar t)) := by
  simp only [Mk.processEnvVar]
  generalize (t.map fun c => if c == 46 then 95 else c) = w
  by_cases h1 : w = Mk.s_platform_python_implementation
  · subst h1; src_simp [Gen.PySrc.process_env_var, PyRt.contains, in_, node_init, Mk.processEnvVar, s_ppi, s_pi, ofNode]
  · by_cases h2 : w = Mk.s_python_implementation
    · subst h2; src_simp [Gen.PySrc.process_env_var, PyRt.contains, in_, node_init, Mk.processEnvVar, s_ppi, s_pi, ofNode]
    · src_simp [Gen.PySrc.process_env_var, PyRt.contains, in_, node_init, Mk.processEnvVar, s_ppi, s_pi, ofNode, h1, h2,
        Ne.symm h1, Ne.symm h2]

theorem str_replace_dot (t : Str) : PyRt.str_replace (.str t) (.str (ofString ".")) (.str (ofString "_")) =
    .ok (.str (t.map fun c => if c == 46 then 95 else c)) := by
  show Except.ok (PyVal.str (t.flatMap fun x => if x == 46 then [95] else [x])) = _
  congr 2
  induction t with
  | nil => rfl
  | cons c cs ih =>
    simp only [List.flatMap_cons, List.map_cons, ih]
    split <;> rfl

/-- … and composed with the caller's `.replace(".", "_")` -/
theorem process_env_var_replace (t : Str) :
    (PyRt.str_replace (.str t) (.str (ofString ".")) (.str (ofString "_")) >>= Gen.PySrc.process_env_var) =
      .ok (ofNode (Mk.processEnvVar t)) := by
  rw [str_replace_dot, ok_bind, process_env_var_eq_model]

theorem process_python_str_eq_model (tok : Str) :
    Gen.PySrc.process_python_str (.str tok) =
      match Mk.pyStrLit tok with
      | .ok v => .ok (ofNode (.val v))
      | .error (.raw .unicodeEncodeError) => .error "UnicodeEncodeError"
      | .error _ => .error "SyntaxError" := by
  simp only [Gen.PySrc.process_python_str, PyTok.literal_eval]
  cases h : Mk.pyStrLit tok with
  | ok v => simp only [pure_ok, ok_bind, str_str, node_init]; rfl
  | error e =>
    cases e with
    | raw x => cases x <;> rfl
    | _ => rfl

/-! ## `Agrees` -/

theorem Agrees.ok {α} {view : α → PyVal} {x : PyTok.TM PyVal} {s s' : PyTok.St} {a : α} {m' : Mk.St}
    (e : x.run s = .ok (view a, s')) (h : TokRel s' m') : Agrees view x s (.ok (a, m')) := ⟨s', e, h⟩

theorem Agrees.err {α} {view : α → PyVal} {x : PyTok.TM PyVal} {s : PyTok.St}
    (e : x.run s = .error "ParserSyntaxError") : Agrees view x s (.error .invalidMarker) := e

/-- sequencing: a translated call whose result the model binds too -/
theorem Agrees.bind {α β} {va : α → PyVal} {vb : β → PyVal} {x : PyTok.TM PyVal} {f : PyVal → PyTok.TM PyVal}
    {s : PyTok.St} {r : Mk.Res (α × Mk.St)} {g : α × Mk.St → Mk.Res (β × Mk.St)}
    (hx : Agrees va x s r) (hf : ∀ a s' m', TokRel s' m' → Agrees vb (f (va a)) s' (g (a, m'))) :
    Agrees vb (x >>= f) s (r >>= g) := by
  cases r with
  | ok p =>
    obtain ⟨a, m'⟩ := p
    obtain ⟨s', e, h'⟩ := hx
    have := hf a s' m' h'
    show Agrees vb (x >>= f) s (g (a, m'))
    cases hg : g (a, m') with
    | ok q =>
      obtain ⟨b, m''⟩ := q
      rw [hg] at this
      obtain ⟨s'', e', h''⟩ := this
      exact ⟨s'', by rw [TM.run_bind, e, ok_bind]; exact e', h''⟩
    | error err =>
      rw [hg] at this
      cases err <;> first | trivial | (show (x >>= f).run s = _; rw [TM.run_bind, e, ok_bind]; exact this)
  | error err =>
    cases err <;> first | trivial | (show (x >>= f).run s = _; rw [TM.run_bind, show x.run s = _ from hx, err_bind])

/-- `tokenizer.consume(name)` followed by the rest -/
theorem Agrees.consume {β} {vb : β → PyVal} {n : Str} {r : Mk.Rule} (hr : PyTok.ruleOf n = some (.mk r))
    {f : PyVal → PyTok.TM PyVal} {s : PyTok.St} {m : Mk.St} (h : TokRel s m) {res : Mk.Res (β × Mk.St)}
    (hf : ∀ s', TokRel s' (Mk.consume Mk.charTS r m) → Agrees vb (f .none) s' res) :
    Agrees vb (PyTok.consume (.str n) >>= f) s res := by
  obtain ⟨s', e, h'⟩ := consume_run h hr
  have := hf s' h'
  have e' : (PyTok.consume (.str n) >>= f).run s = (f .none).run s' := by rw [TM.run_bind, e, ok_bind]
  unfold Agrees at this ⊢
  rw [e']
  exact this

theorem Agrees.pure {α} {view : α → PyVal} {s : PyTok.St} {m : Mk.St} {a : α} {v : PyVal} (h : TokRel s m)
    (hv : v = view a) : Agrees view (pure v) s (.ok (a, m)) := ⟨s, by rw [hv]; rfl, h⟩

/-- a primitive step whose outcome is known -/
theorem Agrees.step {α β} {vb : β → PyVal} {x : PyTok.TM α} {f : α → PyTok.TM PyVal} {s s' : PyTok.St} {a : α}
    {res : Mk.Res (β × Mk.St)} (e : x.run s = .ok (a, s')) (hf : Agrees vb (f a) s' res) :
    Agrees vb (x >>= f) s res := by
  have e' : (x >>= f).run s = (f a).run s' := by rw [TM.run_bind, e, ok_bind]
  unfold Agrees at hf ⊢
  rw [e']
  exact hf

/-- a primitive step that raises `ParserSyntaxError` -/
theorem Agrees.fail {α β} {vb : β → PyVal} {x : PyTok.TM α} {f : α → PyTok.TM PyVal} {s : PyTok.St}
    (e : x.run s = .error "ParserSyntaxError") : Agrees vb (x >>= f) s (.error .invalidMarker) := by
  show (x >>= f).run s = _
  rw [TM.run_bind, e, err_bind]

/-! ## `_parse_marker_var` -/

theorem _parse_marker_var_agrees (s : PyTok.St) (m : Mk.St) (h : TokRel s m) :
    Agrees ofNode Gen.PySrc._parse_marker_var s (Mk.parseVar Mk.charTS m) := by
  simp only [Mk.parseVar, charTS_check]
  cases hv : Mk.St.check .variable m with
  | some p =>
    obtain ⟨t, m'⟩ := p
    refine Agrees.ok (s' := adv s t) ?_ (tokrel_adv h hv)
    simp only [Gen.PySrc._parse_marker_var, TM.run_bind, check_some h rule_variable hv, ok_bind, truthy_bool, if_true,
      read_pend, TM.run_lift, getattr_tok_text, str_replace_dot, process_env_var_eq_model]
  | none =>
    cases hq : Mk.St.check .quoted m with
    | none =>
      refine Agrees.err ?_
      simp only [Gen.PySrc._parse_marker_var, TM.run_bind, check_none h rule_variable hv, check_none h rule_quoted hq,
        ok_bind, truthy_bool, Bool.false_eq_true, Bool.not_false, Bool.not_true, if_false, if_true, TM.run_ite,
        PyTok.raise_syntax_error, TM.run_throw, err_bind]
    | some p =>
      obtain ⟨t, m'⟩ := p
      -- x8: the run of the translated function is *computed* (`simp` with the `TM` layer and the facts about the tokenizer
      -- primitives), never stated: any arrangement of the three cases (`if/elif/else`, guard clauses) is accepted
      show Agrees ofNode _ s (match Mk.pyStrLit t with
        | .ok v => .ok (.val v, m') | .error _ => .error .invalidMarker)
      have ev : ∀ r : M (PyVal × PyTok.St), Gen.PySrc._parse_marker_var.run s = r ↔
          (do
            let p ← tryCatch
                (do
                  let p ← (do let a ← Gen.PySrc.process_python_str (PyVal.str t); Except.ok (a, adv s t))
                  Except.ok ((Except.error p.fst : Except PyVal Unit), p.snd))
                fun e => if (catches "SyntaxError" e || catches "ValueError" e) = true
                  then Except.error "ParserSyntaxError" else Except.error e
            StateT.run (EarlyReturn.runK p.fst (fun r => pure r) fun __r => pure PyVal.none) p.snd) = r := by
        intro r
        simp only [Gen.PySrc._parse_marker_var, TM.run_bind, check_none h rule_variable hv, check_some h rule_quoted hq,
          ok_bind, truthy_bool, Bool.false_eq_true, Bool.not_true, Bool.not_false, if_false, if_true, position_run, read_pend,
          TM.run_lift, getattr_tok_text, TM.run_tryCatch, TM.run_earlyReturn, TM.run_exceptT_pure, TM.run_ite, TM.run_pure,
          PyTok.raise_syntax_error, TM.run_throw, err_bind]
      cases hp : Mk.pyStrLit t with
      | ok v =>
        refine Agrees.ok (s' := adv s t) ?_ (tokrel_adv h hq)
        rw [ev, process_python_str_eq_model, hp]
        rfl
      | error e =>
        refine Agrees.err ?_
        rw [ev, process_python_str_eq_model, hp]
        cases e with
        | raw x => cases x <;> rfl
        | _ => rfl

/-! ## `_parse_marker_op` -/

theorem s_in_eq : ofString "in" = Mk.s_in := by rfl
theorem s_not_in_eq : ofString "not in" = Mk.s_not_in := by rfl

theorem _parse_marker_op_agrees (s : PyTok.St) (m : Mk.St) (h : TokRel s m) :
    Agrees ofOp Gen.PySrc._parse_marker_op s (Mk.parseOp Mk.charTS m) := by
  simp only [Mk.parseOp, charTS_check]
  cases hi : Mk.St.check .kwIn m with
  | some p =>
    obtain ⟨t, m'⟩ := p
    refine Agrees.ok (s' := adv s t) ?_ (tokrel_adv h hi)
    simp only [Gen.PySrc._parse_marker_op, TM.run_bind, check_some h rule_in hi, ok_bind, truthy_bool, if_true,
      read_pend, TM.run_lift, node_init, s_in_eq, ofOp]
  | none =>
    cases hn : Mk.St.check .kwNot m with
    | some p =>
      obtain ⟨t1, m1⟩ := p
      have h1 := tokrel_adv h hn
      dsimp only
      cases hw : Mk.St.check .ws m1 with
      | none =>
        refine Agrees.err ?_
        simp only [Gen.PySrc._parse_marker_op, TM.run_bind, check_none h rule_in hi, check_some h rule_not hn, ok_bind,
          truthy_bool, Bool.false_eq_true, if_false, if_true, read_pend, expect_none h1 rule_ws hw, err_bind]
      | some p =>
        obtain ⟨t2, m2⟩ := p
        have h2 := tokrel_adv h1 hw
        dsimp only
        cases hi2 : Mk.St.check .kwIn m2 with
        | none =>
          refine Agrees.err ?_
          simp only [Gen.PySrc._parse_marker_op, TM.run_bind, check_none h rule_in hi, check_some h rule_not hn, ok_bind,
            truthy_bool, Bool.false_eq_true, if_false, if_true, read_pend, expect_some h1 rule_ws hw,
            expect_none h2 rule_in hi2, err_bind]
        | some p =>
          obtain ⟨t3, m3⟩ := p
          refine Agrees.ok (s' := adv (adv (adv s t1) t2) t3) ?_ (tokrel_adv h2 hi2)
          simp only [Gen.PySrc._parse_marker_op, TM.run_bind, check_none h rule_in hi, check_some h rule_not hn, ok_bind,
            truthy_bool, Bool.false_eq_true, if_false, if_true, read_pend, expect_some h1 rule_ws hw,
            expect_some h2 rule_in hi2, TM.run_lift, node_init, s_not_in_eq, ofOp]
    | none =>
      cases ho : Mk.St.check .op m with
      | some p =>
        obtain ⟨t, m'⟩ := p
        refine Agrees.ok (s' := adv s t) ?_ (tokrel_adv h ho)
        simp only [Gen.PySrc._parse_marker_op, TM.run_bind, check_none h rule_in hi, check_none h rule_not hn,
          check_some h rule_op ho, ok_bind, truthy_bool, Bool.false_eq_true, if_false, if_true,
          read_pend, TM.run_lift, getattr_tok_text, node_init, ofOp]
      | none =>
        refine Agrees.err ?_
        simp only [Gen.PySrc._parse_marker_op, TM.run_bind, check_none h rule_in hi, check_none h rule_not hn,
          check_none h rule_op ho, ok_bind, truthy_bool, Bool.false_eq_true, if_false,
          PyTok.raise_syntax_error, TM.run_throw]

/-! ## `_parse_marker_item` -/

theorem _parse_marker_item_agrees (s : PyTok.St) (m : Mk.St) (h : TokRel s m) :
    Agrees ofAtom Gen.PySrc._parse_marker_item s (Mk.parseItem Mk.charTS m) := by
  unfold Gen.PySrc._parse_marker_item Mk.parseItem
  refine Agrees.consume rule_ws h fun s1 h1 => ?_
  refine Agrees.bind (_parse_marker_var_agrees _ _ h1) fun l s2 m2 h2 => ?_
  refine Agrees.consume rule_ws h2 fun s3 h3 => ?_
  refine Agrees.bind (_parse_marker_op_agrees _ _ h3) fun o s4 m4 h4 => ?_
  refine Agrees.consume rule_ws h4 fun s5 h5 => ?_
  refine Agrees.bind (_parse_marker_var_agrees _ _ h5) fun r s6 m6 h6 => ?_
  refine Agrees.consume rule_ws h6 fun s7 h7 => ?_
  exact Agrees.pure h7 rfl

/-! ## `_parse_marker`, `_parse_marker_atom` (fuel-indexed) -/

theorem ofMs_append (a b : List Mk.M) : ofMs (a ++ b) = ofMs a ++ ofMs b := by
  induction a with
  | nil => simp [ofMs]
  | cons x xs ih => simp [ofMs, ih]

/-- the locals of the `while` loop of `_parse_marker`: `token`, `expr_right`, `expression`, and the "left by `break`" flag -/
abbrev LoopSt := PyVal × PyVal × PyVal × Bool

/-- `Agrees` for the loop: it ends by `break` with the model's list in `expression` -/
def LoopAgrees (x : PyTok.TM LoopSt) (s : PyTok.St) (r : Mk.Res (List Mk.M × Mk.St)) : Prop :=
  match r with
  | .ok (res, m') => ∃ s' tok er, x.run s = .ok ((tok, er, .list (ofMs res), true), s') ∧ TokRel s' m'
  | .error .fuel => True
  | .error _ => x.run s = .error "ParserSyntaxError"

/-- the `while tokenizer.check("BOOLOP")` loop is `Mk.parseRest`: any loop body that breaks when there is no BOOLOP and
otherwise reads it, parses an atom and extends `expression`, run over more items than the model has fuel -/
theorem while_loop_agrees (atom : PyTok.TM PyVal) (body : Nat → LoopSt → PyTok.TM (ForInStep LoopSt))
    (tk : PyTok.St → Str → PyVal) (ext : PyVal → Str → PyVal → M PyVal)
    (hext : ∀ (acc : List Mk.M) (t : Str) (b : Mk.M),
      ext (.list (ofMs acc)) t (ofM b) = .ok (.list (ofMs (acc ++ [.bool t, b]))))
    (hdone : ∀ i st s m, TokRel s m → Mk.St.check .boolop m = none →
      (body i st).run s = .ok (.done (st.1, st.2.1, st.2.2.1, true), s))
    (hstep : ∀ i st s m t m1, TokRel s m → Mk.St.check .boolop m = some (t, m1) →
      (body i st).run s = (do
        let p ← atom.run (adv s t)
        let e ← ext st.2.2.1 t p.1
        .ok (.yield (tk s t, p.1, e, st.2.2.2), p.2)))
    (g : Nat) (hatom : ∀ g', g' < g → ∀ s m, TokRel s m → Agrees ofM atom s (Mk.parseAtom Mk.charTS g' m)) :
    ∀ (l : List Nat), g < l.length → ∀ (acc : List Mk.M) (tok er : PyVal) (fl : Bool) (s : PyTok.St) (m : Mk.St),
      TokRel s m →
      LoopAgrees (forIn l (tok, er, .list (ofMs acc), fl) body) s (Mk.parseRest Mk.charTS g acc m) := by
  induction g with
  | zero => intros; simp only [Mk.parseRest]; trivial
  | succ g ih =>
    intro l hl acc tok er fl s m h
    cases l with
    | nil => simp at hl
    | cons i l =>
      have hl' : g < l.length := by simpa using hl
      simp only [Mk.parseRest, charTS_check, List.forIn_cons]
      cases hb : Mk.St.check .boolop m with
      | none =>
        refine ⟨s, tok, er, ?_, h⟩
        rw [TM.run_bind, hdone i _ s m h hb, ok_bind]
        rfl
      | some p =>
        obtain ⟨t, m1⟩ := p
        dsimp only
        have ha := hatom g (Nat.lt_succ_self g) (adv s t) m1 (tokrel_adv h hb)
        have hrun := hstep i (tok, er, .list (ofMs acc), fl) s m t m1 h hb
        cases hpa : Mk.parseAtom Mk.charTS g m1 with
        | error e =>
          rw [hpa] at ha
          cases e <;> first
            | trivial
            | (show StateT.run _ s = _
               rw [TM.run_bind, hrun, show atom.run (adv s t) = _ from ha]; rfl)
        | ok q =>
          obtain ⟨b, m2⟩ := q
          rw [hpa] at ha
          obtain ⟨s2, e2, h2⟩ := ha
          have hnext := ih (fun g' hg' => hatom g' (Nat.lt_succ_of_lt hg')) l hl' (acc ++ [.bool t, b])
            (tk s t) (ofM b) fl s2 m2 h2
          have hrun' : (body i (tok, er, .list (ofMs acc), fl)).run s =
              .ok (.yield (tk s t, ofM b, .list (ofMs (acc ++ [.bool t, b])), fl), s2) := by
            rw [hrun, e2]
            simp only [ok_bind, hext]
          show LoopAgrees _ s (Mk.parseRest Mk.charTS g (acc ++ [.bool t, b]) m2)
          unfold LoopAgrees at hnext ⊢
          rw [TM.run_bind_ok hrun']
          exact hnext

/-- … followed by the code after the loop, which hands `expression` back when the loop was left by `break` -/
theorem Agrees.while_loop {atom : PyTok.TM PyVal} {body : Nat → LoopSt → PyTok.TM (ForInStep LoopSt)}
    (tk : PyTok.St → Str → PyVal) (ext : PyVal → Str → PyVal → M PyVal)
    {g : Nat} {l : List Nat} {acc : List Mk.M} {tok er : PyVal} {fl : Bool} {s : PyTok.St} {m : Mk.St}
    {k : LoopSt → PyTok.TM PyVal}
    (hext : ∀ (acc : List Mk.M) (t : Str) (b : Mk.M),
      ext (.list (ofMs acc)) t (ofM b) = .ok (.list (ofMs (acc ++ [.bool t, b]))))
    (hdone : ∀ i st s m, TokRel s m → Mk.St.check .boolop m = none →
      (body i st).run s = .ok (.done (st.1, st.2.1, st.2.2.1, true), s))
    (hstep : ∀ i st s m t m1, TokRel s m → Mk.St.check .boolop m = some (t, m1) →
      (body i st).run s = (do
        let p ← atom.run (adv s t)
        let e ← ext st.2.2.1 t p.1
        .ok (.yield (tk s t, p.1, e, st.2.2.2), p.2)))
    (hatom : ∀ g', g' < g → ∀ s m, TokRel s m → Agrees ofM atom s (Mk.parseAtom Mk.charTS g' m))
    (hl : g < l.length) (h : TokRel s m)
    (hk : ∀ tok er e s, (k (tok, er, e, true)).run s = .ok (e, s)) :
    Agrees ofML (forIn l (tok, er, .list (ofMs acc), fl) body >>= k) s (Mk.parseRest Mk.charTS g acc m) := by
  have := while_loop_agrees atom body tk ext hext hdone hstep g hatom l hl acc tok er fl s m h
  unfold LoopAgrees at this
  unfold Agrees
  cases hr : Mk.parseRest Mk.charTS g acc m with
  | ok p =>
    obtain ⟨res, m'⟩ := p
    rw [hr] at this
    obtain ⟨s', tok', er', e, h'⟩ := this
    exact ⟨s', by rw [TM.run_bind_ok e, hk]; rfl, h'⟩
  | error err =>
    rw [hr] at this
    cases err <;> first | trivial | exact TM.run_bind_err this

set_option hygiene false in
/-- the three obligations of `Agrees.while_loop` for the translated loop body, by symbolic execution -/
local macro "marker_loop_cases" : tactic => `(tactic| (
  case hdone =>
    intro i st s m h hb
    simp only [TM.run_bind, check_none h rule_boolop hb, ok_bind, truthy_bool, Bool.not_false, if_true,
      TM.run_pure]
  case hstep =>
    intro i st s m t m1 h hb
    simp only [TM.run_bind, check_some h rule_boolop hb, ok_bind, truthy_bool, Bool.not_true,
      Bool.false_eq_true, if_false, read_pend, TM.run_lift, getattr_tok_text, TM.run_pure, bind_assoc]
  case hk =>
    intro tok er e s
    simp only [Bool.not_true, Bool.false_eq_true, if_false, TM.run_pure]))

/-- the translated functions with fuel `F` agree with the model at any fuel `f ≤ F` (the model also spends a unit
per loop iteration) -/
theorem _parse_marker_fuel_agrees : ∀ (f F : Nat), f ≤ F → ∀ (s : PyTok.St) (m : Mk.St), TokRel s m →
    Agrees ofML (Gen.PySrc._parse_marker__fuel F) s (Mk.parseMarker Mk.charTS f m) ∧
    Agrees ofM (Gen.PySrc._parse_marker_atom__fuel F) s (Mk.parseAtom Mk.charTS f m) := by
  intro f
  induction f using Nat.strongRecOn with
  | ind f ih =>
    intro F hF s m h
    cases f with
    | zero => simp only [Mk.parseMarker, Mk.parseAtom]; exact ⟨trivial, trivial⟩
    | succ f =>
      obtain ⟨F, rfl⟩ : ∃ F', F = F' + 1 := ⟨F - 1, by omega⟩
      have hF' : f ≤ F := by omega
      constructor
      · -- `_parse_marker`
        simp only [Gen.PySrc._parse_marker__fuel, Mk.parseMarker]
        refine Agrees.bind (ih f (Nat.lt_succ_self f) F hF' s m h).2 fun a s1 m1 h1 => ?_
        dsimp only
        -- x8: what one iteration leaves in its first local (the token / its text) and how it extends the list
        -- (`extend((a, b))` / two `append`s) are parameters of the loop lemma
        first
        | (refine Agrees.while_loop (atom := Gen.PySrc._parse_marker_atom__fuel F) (acc := [a])
            (fun s t => tokObj s (ofString "BOOLOP") t) (fun e t x => list_extend e (.tuple [.str t, x]))
            (by intro acc t b; simp only [list_extend_list_tuple, ofMs_append, ofMs, ofM])
            ?hdone ?hstep (fun g' hg' s m h => (ih g' (by omega) F (by omega) s m h).2) (by simp; omega) h1 ?hk
           marker_loop_cases)
        | (refine Agrees.while_loop (atom := Gen.PySrc._parse_marker_atom__fuel F) (acc := [a])
            (fun _ t => PyVal.str t) (fun e t x => do let y ← list_append e (.str t); list_append y x)
            (by intro acc t b; simp [list_append_list, ofMs_append, ofMs, ofM])
            ?hdone ?hstep (fun g' hg' s m h => (ih g' (by omega) F (by omega) s m h).2) (by simp; omega) h1 ?hk
           marker_loop_cases)
      · -- `_parse_marker_atom`
        simp only [Gen.PySrc._parse_marker_atom__fuel, Mk.parseAtom, charTS_check]
        refine Agrees.consume rule_ws h fun s1 h1 => ?_
        cases hp : Mk.St.check .lparen (Mk.consume Mk.charTS .ws m) with
        | none =>
          refine Agrees.step (check_none h1 rule_lparen hp _) ?_
          simp only [truthy_bool, Bool.false_eq_true, if_false]
          refine Agrees.bind (_parse_marker_item_agrees _ _ h1) fun a s2 m2 h2 => ?_
          refine Agrees.consume rule_ws h2 fun s3 h3 => ?_
          exact Agrees.pure h3 rfl
        | some p =>
          obtain ⟨t, m2⟩ := p
          refine Agrees.step (check_peek_some h1 rule_lparen hp) ?_
          simp only [truthy_bool, if_true]
          refine Agrees.step (enclosing_open_some h1 rule_lparen hp) ?_
          refine Agrees.consume rule_ws (tokrel_adv h1 hp) fun s3 h3 => ?_
          refine Agrees.bind (ih f (Nat.lt_succ_self f) F hF' _ _ h3).1 fun l s4 m4 h4 => ?_
          refine Agrees.consume rule_ws h4 fun s5 h5 => ?_
          dsimp only
          cases hrp : Mk.St.check .rparen (Mk.consume Mk.charTS .ws m4) with
          | none => exact Agrees.fail (enclosing_close_none _ h5 rule_rparen hrp)
          | some p =>
            obtain ⟨t', m6⟩ := p
            refine Agrees.step (enclosing_close_some _ h5 rule_rparen hrp) ?_
            refine Agrees.consume rule_ws (tokrel_adv h5 hrp) fun s7 h7 => ?_
            exact Agrees.pure h7 (by simp only [ofM, ofML])

/-! ## the entry points -/

theorem _parse_marker_agrees (s : PyTok.St) (m : Mk.St) (h : TokRel s m) (f : Nat) (hf : f ≤ PyTok.fuelOf s []) :
    Agrees ofML Gen.PySrc._parse_marker s (Mk.parseMarker Mk.charTS f m) := by
  unfold Gen.PySrc._parse_marker
  exact Agrees.step (TM.run_get s) (_parse_marker_fuel_agrees f _ hf s m h).1

theorem _parse_marker_atom_agrees (s : PyTok.St) (m : Mk.St) (h : TokRel s m) (f : Nat) (hf : f ≤ PyTok.fuelOf s []) :
    Agrees ofM Gen.PySrc._parse_marker_atom s (Mk.parseAtom Mk.charTS f m) := by
  unfold Gen.PySrc._parse_marker_atom
  exact Agrees.step (TM.run_get s) (_parse_marker_fuel_agrees f _ hf s m h).2

theorem fuelFor_le (src : Str) : Mk.fuelFor src.length ≤ PyTok.fuelOf (start src) [] := by
  simp only [Mk.fuelFor, PyTok.fuelOf, start]
  omega

/-- `_parse_full_marker` on a fresh tokenizer -/
theorem _parse_full_marker_eq_model (s : PyTok.St) (m : Mk.St) (h : TokRel s m) (f : Nat) (hf : f ≤ PyTok.fuelOf s [])
    (hfuel : Mk.parseFull Mk.charTS f m ≠ .error .fuel) :
    PyTok.run Gen.PySrc._parse_full_marker s =
      match Mk.parseFull Mk.charTS f m with
      | .ok l => .ok (ofML l)
      | .error _ => .error "ParserSyntaxError" := by
  have hA := _parse_marker_agrees s m h f hf
  unfold Mk.parseFull at hfuel ⊢
  unfold Gen.PySrc._parse_full_marker PyTok.run
  cases hp : Mk.parseMarker Mk.charTS f m with
  | error e =>
    rw [hp] at hA hfuel
    cases e with
    | fuel => exact absurd rfl hfuel
    | _ => rw [TM.run_bind_err (show Gen.PySrc._parse_marker.run s = _ from hA)]; rfl
  | ok p =>
    obtain ⟨l, m'⟩ := p
    rw [hp] at hA
    obtain ⟨s', e, h'⟩ := hA
    rw [TM.run_bind_ok e]
    have hb : ∀ (x : List Mk.M × Mk.St) (g : List Mk.M × Mk.St → Mk.Res (List Mk.M)), (Except.ok x >>= g) = g x :=
      fun _ _ => rfl
    simp only [hb, charTS_check]
    cases he : Mk.St.check .end_ m' with
    | none => rw [TM.run_bind_err (expect_none h' rule_end he)]; rfl
    | some q =>
      obtain ⟨t, m''⟩ := q
      rw [TM.run_bind_ok (expect_some h' rule_end he)]; rfl

theorem parse_marker_eq_model (src : Str) (hfuel : Mk.parse src ≠ .error .fuel) :
    Gen.PySrc.parse_marker (.str src) =
      match Mk.parse src with
      | .ok l => .ok (ofML l)
      | .error _ => .error "ParserSyntaxError" := by
  have := _parse_full_marker_eq_model (start src) ⟨none, src⟩ (start_rel src) _ (fuelFor_le src) hfuel
  unfold Gen.PySrc.parse_marker Mk.parse
  simp only [PyTok.new, pure_ok, ok_bind]
  exact this

/-! ## the model never runs out of fuel -/
namespace Fuel

theorem startsWith_length : ∀ (s w : Str), startsWith s w = true → w.length ≤ s.length
  | _, [], _ => Nat.zero_le _
  | [], _ :: _, h => by simp [startsWith] at h
  | c :: cs, p :: ps, h => by
    simp only [startsWith, Bool.and_eq_true] at h
    have := startsWith_length cs ps h.2
    simp only [List.length_cons]; omega

theorem matchFin_pos (d : Bool × List Str × Bool) (hd : ∀ w ∈ d.2.1, w ≠ []) (p : Option Nat) (rest : Str) (k : Nat)
    (h : Mk.matchFin d p rest = some k) : 1 ≤ k ∧ k ≤ rest.length := by
  unfold Mk.matchFin at h
  split at h
  · cases h
  · obtain ⟨w, hw, hk⟩ := List.exists_of_findSome?_eq_some h
    split at hk
    · rename_i hc
      simp only [Bool.and_eq_true] at hc
      cases hk
      have := startsWith_length _ _ hc.1
      have hne := hd w hw
      cases w with
      | nil => exact absurd rfl hne
      | cons c cs => simp only [List.length_cons] at this ⊢; omega
    · cases hk

def len (m : Mk.St) : Nat := m.rest.length

theorem check_len {r : Mk.Rule} {m m' : Mk.St} {t : Str} (h : Mk.St.check r m = some (t, m')) : len m' ≤ len m := by
  unfold Mk.St.check at h
  split at h
  · cases h
  · simp only [Option.some.injEq, Prod.mk.injEq] at h
    obtain ⟨_, rfl⟩ := h
    simp [len]

theorem check_fin_lt {r : Mk.Rule} {d : Bool × List Str × Bool} (hr : ∀ p rest, Mk.matchRule r p rest = Mk.matchFin d p rest)
    (hd : ∀ w ∈ d.2.1, w ≠ []) {m m' : Mk.St} {t : Str} (h : Mk.St.check r m = some (t, m')) : len m' < len m := by
  unfold Mk.St.check at h
  split at h
  · cases h
  · rename_i k hk
    simp only [Option.some.injEq, Prod.mk.injEq] at h
    obtain ⟨_, rfl⟩ := h
    rw [hr] at hk
    have := matchFin_pos d hd _ _ _ hk
    simp only [len, List.length_drop]; omega

theorem check_lparen_lt {m m' : Mk.St} {t : Str} (h : Mk.St.check .lparen m = some (t, m')) : len m' < len m :=
  check_fin_lt (d := Gen.MarkerTok.rLparen) (fun _ _ => rfl) (by decide) h

theorem check_boolop_lt {m m' : Mk.St} {t : Str} (h : Mk.St.check .boolop m = some (t, m')) : len m' < len m :=
  check_fin_lt (d := Gen.MarkerTok.rBoolop) (fun _ _ => rfl) (by decide) h

theorem consume_len (r : Mk.Rule) (m : Mk.St) : len (Mk.consume Mk.charTS r m) ≤ len m := by
  simp only [Mk.consume, charTS_check]
  split
  · rename_i h; exact check_len h
  · exact Nat.le_refl _

/-- the result is not "out of fuel", and a success leaves at most `n` characters -/
def Good {α} (n : Nat) (r : Mk.Res (α × Mk.St)) : Prop :=
  match r with
  | .ok (_, m') => len m' ≤ n
  | .error e => e ≠ .fuel

theorem Good.mono {α} {n k : Nat} {r : Mk.Res (α × Mk.St)} (h : Good n r) (hk : n ≤ k) : Good k r := by
  cases r with
  | ok p => exact Nat.le_trans h hk
  | error e => exact h

theorem Good.bind {α β} {n k : Nat} {x : Mk.Res (α × Mk.St)} {g : α × Mk.St → Mk.Res (β × Mk.St)}
    (hx : Good n x) (hg : ∀ a m', len m' ≤ n → Good k (g (a, m'))) : Good k (x >>= g) := by
  cases x with
  | ok p => exact hg p.1 p.2 hx
  | error e => exact hx

theorem Good.ok {α} {n : Nat} {a : α} {m' : Mk.St} (h : len m' ≤ n) : Good n (.ok (a, m')) := h
theorem Good.err {α} {n : Nat} : Good (α := α) n (.error .invalidMarker) := by
  show Mk.Err.invalidMarker ≠ .fuel
  decide

theorem parseVar_good (m : Mk.St) : Good (len m) (Mk.parseVar Mk.charTS m) := by
  simp only [Mk.parseVar, charTS_check]
  split
  · rename_i h; exact Good.ok (check_len h)
  · split
    · rename_i h
      split
      · exact Good.ok (check_len h)
      · exact Good.err
    · exact Good.err

theorem parseOp_good (m : Mk.St) : Good (len m) (Mk.parseOp Mk.charTS m) := by
  simp only [Mk.parseOp, charTS_check]
  split
  · rename_i h; exact Good.ok (check_len h)
  · split
    · rename_i h1
      split
      · exact Good.err
      · rename_i h2
        split
        · exact Good.err
        · rename_i h3
          exact Good.ok (Nat.le_trans (check_len h3) (Nat.le_trans (check_len h2) (check_len h1)))
    · split
      · rename_i h; exact Good.ok (check_len h)
      · exact Good.err

theorem parseItem_good (m : Mk.St) : Good (len m) (Mk.parseItem Mk.charTS m) := by
  unfold Mk.parseItem
  have c1 := consume_len .ws m
  refine Good.bind ((parseVar_good _).mono c1) fun l m2 h2 => ?_
  refine Good.bind (((parseOp_good _).mono (consume_len .ws m2)).mono h2) fun o m4 h4 => ?_
  refine Good.bind (((parseVar_good _).mono (consume_len .ws m4)).mono h4) fun r m6 h6 => ?_
  exact Good.ok (Nat.le_trans (consume_len .ws m6) h6)

/-- fuel `2·n + 3` is enough for `parseMarker` on `n` characters (`+2` for `parseAtom`, `+1` for `parseRest`) -/
theorem parse_good : ∀ (f : Nat) (m : Mk.St),
    (2 * len m + 3 ≤ f → Good (len m) (Mk.parseMarker Mk.charTS f m)) ∧
    (2 * len m + 2 ≤ f → Good (len m) (Mk.parseAtom Mk.charTS f m)) ∧
    (∀ acc, 2 * len m + 1 ≤ f → Good (len m) (Mk.parseRest Mk.charTS f acc m)) := by
  intro f
  induction f with
  | zero => intro m; exact ⟨fun h => by omega, fun h => by omega, fun _ h => by omega⟩
  | succ f ih =>
    intro m
    refine ⟨fun hf => ?_, fun hf => ?_, fun acc hf => ?_⟩
    · simp only [Mk.parseMarker]
      refine Good.bind ((ih m).2.1 (by omega)) fun a m1 h1 => ?_
      exact ((ih m1).2.2 [a] (by omega)).mono h1
    · simp only [Mk.parseAtom, charTS_check]
      have c0 := consume_len .ws m
      split
      · rename_i t m1 hp
        have h1 := check_lparen_lt hp
        have c1 := consume_len .ws m1
        refine Good.bind (n := len (Mk.consume Mk.charTS .ws m1)) ((ih _).1 (by omega)) fun l m3 h3 => ?_
        dsimp only
        have c3 := consume_len .ws m3
        split
        · exact Good.err
        · rename_i t' m5 hr
          have h5 := check_len hr
          have c5 := consume_len .ws m5
          exact Good.ok (by omega)
      · refine Good.bind ((parseItem_good _).mono c0) fun a m2 h2 => ?_
        exact Good.ok (Nat.le_trans (consume_len .ws m2) h2)
    · simp only [Mk.parseRest, charTS_check]
      split
      · exact Good.ok (Nat.le_refl _)
      · rename_i t m1 hb
        have h1 := check_boolop_lt hb
        refine Good.bind (n := len m1) ((ih m1).2.1 (by omega)) fun b m2 h2 => ?_
        exact ((ih m2).2.2 _ (by omega)).mono (by omega)

theorem parse_ne_fuel (src : Str) : Mk.parse src ≠ .error .fuel := by
  unfold Mk.parse Mk.parseFull
  have h := (parse_good (Mk.fuelFor src.length) ⟨none, src⟩).1 (by simp only [len, Mk.fuelFor]; omega)
  cases hp : Mk.parseMarker Mk.charTS (Mk.fuelFor src.length) ⟨none, src⟩ with
  | error e =>
    rw [hp] at h
    intro hc
    cases hc
    exact h rfl
  | ok p =>
    obtain ⟨l, m'⟩ := p
    have hb : ∀ (x : List Mk.M × Mk.St) (g : List Mk.M × Mk.St → Mk.Res (List Mk.M)), (Except.ok x >>= g) = g x :=
      fun _ _ => rfl
    simp only [hb]
    split <;> (intro hc; cases hc)

/-- for callers with their own fuel (the requirement parser): enough fuel, no `.fuel` -/
theorem parseMarker_ne_fuel (f : Nat) (m : Mk.St) (hf : 2 * m.rest.length + 3 ≤ f) :
    Mk.parseMarker Mk.charTS f m ≠ .error .fuel := by
  have h := (parse_good f m).1 hf
  intro hc
  rw [hc] at h
  exact h rfl

end Fuel

/-- `parse_marker` = the model, without a fuel hypothesis -/
theorem parse_marker_eq_model' (src : Str) :
    Gen.PySrc.parse_marker (.str src) =
      match Mk.parse src with
      | .ok l => .ok (ofML l)
      | .error _ => .error "ParserSyntaxError" :=
  parse_marker_eq_model src (Fuel.parse_ne_fuel src)

end Src

