import PkgModel.Generated.PySrc
import PkgModel.PyParser
import PkgProofs.Lemmas.PyRt
/-!
# Translated source of the marker parser (`_parser.py`) = the model (`Mk.parse…`)
-/
namespace Src
open PyRt Py PyMk PyPar

/-! ## the `StateT` layer of `PyTok.TM` -/
namespace TM
open PyTok

theorem run_bind {α β} (x : TM α) (f : α → TM β) (s : St) :
    (x >>= f).run s = (x.run s >>= fun p => (f p.1).run p.2) := by rfl
theorem run_pure {α} (a : α) (s : St) : (pure a : TM α).run s = .ok (a, s) := by rfl
theorem run_lift {α} (x : M α) (s : St) : (liftM x : TM α).run s = (x >>= fun a => .ok (a, s)) := by rfl
theorem run_lift_ok {α} (x : M α) (a : α) (s : St) (h : x = .ok a) : (liftM x : TM α).run s = .ok (a, s) := by
  subst h; rfl
theorem run_get (s : St) : (get : TM St).run s = .ok (s, s) := by rfl
theorem run_set (s s' : St) : (set s' : TM PUnit).run s = .ok (PUnit.unit, s') := by rfl
theorem run_throw {α} (e : PyExc) (s : St) : (throw e : TM α).run s = .error e := by rfl
theorem run_tryCatch {α} (x : TM α) (h : PyExc → TM α) (s : St) :
    (tryCatch x h).run s = tryCatch (x.run s) (fun e => (h e).run s) := by rfl
theorem run_ite {α} (c : Prop) [Decidable c] (x y : TM α) (s : St) :
    (if c then x else y).run s = if c then x.run s else y.run s := by
  split <;> rfl

end TM

/-! ## the primitives of the tokenizer against `Mk.St.check` -/

/-- the tokenizer after `read()` of a token with text `t` -/
def adv (s : PyTok.St) (t : Str) : PyTok.St := ⟨s.pre ++ t, Mk.lastOr t s.prev, s.rest.drop t.length, none⟩
/-- the tokenizer between a successful `check(name)` and `read()` -/
def pend (s : PyTok.St) (n t : Str) : PyTok.St := { s with next := some (n, t) }
/-- the `Token` object -/
def tokObj (s : PyTok.St) (n t : Str) : PyVal :=
  .obj "Token" [("name", .str n), ("text", .str t), ("position", .int s.pre.length)]

theorem drop_take_length (l : Str) (n : Nat) : l.drop (l.take n).length = l.drop n := by
  rw [List.length_take]
  by_cases h : n ≤ l.length
  · rw [Nat.min_eq_left h]
  · rw [Nat.min_eq_right (by omega), List.drop_of_length_le (by omega), List.drop_of_length_le (by omega)]

theorem tokrel_adv {s : PyTok.St} {m m' : Mk.St} {r : Mk.Rule} {t : Str}
    (h : TokRel s m) (hc : Mk.St.check r m = some (t, m')) : TokRel (adv s t) m' := by
  obtain ⟨hp, hr, hn⟩ := h
  unfold Mk.St.check at hc
  split at hc
  · cases hc
  · rename_i k hk
    simp only [Option.some.injEq, Prod.mk.injEq] at hc
    obtain ⟨rfl, rfl⟩ := hc
    refine ⟨?_, ?_, rfl⟩
    · simp [adv, hp, hr]
    · simp [adv, hr]

theorem check_none {s : PyTok.St} {m : Mk.St} {n : Str} {r : Mk.Rule} (h : TokRel s m)
    (hr : PyTok.ruleOf n = some (.mk r)) (hc : Mk.St.check r m = none) (peek : PyVal) :
    (PyTok.check (.str n) peek).run s = .ok (.bool false, s) := by
  obtain ⟨hp, hrest, hn⟩ := h
  have hm : Mk.matchRule r s.prev s.rest = none := by
    unfold Mk.St.check at hc
    rw [hp, hrest]
    split at hc
    · assumption
    · cases hc
  simp only [PyTok.check, TM.run_bind, TM.run_get, ok_bind, hn, hr, PyTok.matchAny, hm, Option.isSome_none,
    Bool.false_eq_true, if_false, TM.run_pure]

theorem matchRule_of_check {s : PyTok.St} {m m' : Mk.St} {r : Mk.Rule} {t : Str} (h : TokRel s m)
    (hc : Mk.St.check r m = some (t, m')) : ∃ k, Mk.matchRule r s.prev s.rest = some k ∧ s.rest.take k = t := by
  obtain ⟨hp, hrest, hn⟩ := h
  unfold Mk.St.check at hc
  rw [hp, hrest]
  split at hc
  · cases hc
  · rename_i k hk
    simp only [Option.some.injEq, Prod.mk.injEq] at hc
    exact ⟨k, hk, hc.1⟩

theorem check_some {s : PyTok.St} {m m' : Mk.St} {n : Str} {r : Mk.Rule} {t : Str} (h : TokRel s m)
    (hr : PyTok.ruleOf n = some (.mk r)) (hc : Mk.St.check r m = some (t, m')) :
    (PyTok.check (.str n) (.bool false)).run s = .ok (.bool true, pend s n t) := by
  obtain ⟨k, hm, ht⟩ := matchRule_of_check h hc
  obtain ⟨hp, hrest, hn⟩ := h
  simp only [PyTok.check, TM.run_bind, TM.run_get, ok_bind, hn, hr, PyTok.matchAny, hm, Option.isSome_none,
    Bool.false_eq_true, if_false, TM.run_pure, truthy_bool, Bool.not_false, if_true, TM.run_set, ht, pend]

/-- `check(name, peek=True)` -/
theorem check_peek_some {s : PyTok.St} {m m' : Mk.St} {n : Str} {r : Mk.Rule} {t : Str} (h : TokRel s m)
    (hr : PyTok.ruleOf n = some (.mk r)) (hc : Mk.St.check r m = some (t, m')) :
    (PyTok.check (.str n) (.bool true)).run s = .ok (.bool true, s) := by
  obtain ⟨k, hm, ht⟩ := matchRule_of_check h hc
  obtain ⟨hp, hrest, hn⟩ := h
  simp only [PyTok.check, TM.run_bind, TM.run_get, ok_bind, hn, hr, PyTok.matchAny, hm, Option.isSome_none,
    Bool.false_eq_true, if_false, TM.run_pure, truthy_bool, Bool.not_true]

theorem read_pend (s : PyTok.St) (n t : Str) : PyTok.read.run (pend s n t) = .ok (tokObj s n t, adv s t) := by
  simp only [PyTok.read, TM.run_bind, TM.run_get, ok_bind, pend, TM.run_set, TM.run_pure, tokObj, adv]

@[simp] theorem getattr_tok_text (s n t) : getattr (tokObj s n t) "text" = .ok (.str t) := by rfl

theorem expect_some {s : PyTok.St} {m m' : Mk.St} {n : Str} {r : Mk.Rule} {t : Str} (h : TokRel s m)
    (hr : PyTok.ruleOf n = some (.mk r)) (hc : Mk.St.check r m = some (t, m')) :
    (PyTok.expect (.str n)).run s = .ok (tokObj s n t, adv s t) := by
  simp only [PyTok.expect, TM.run_bind, check_some h hr hc, ok_bind, truthy_bool, Bool.not_true, Bool.false_eq_true,
    if_false, read_pend]

theorem expect_none {s : PyTok.St} {m : Mk.St} {n : Str} {r : Mk.Rule} (h : TokRel s m)
    (hr : PyTok.ruleOf n = some (.mk r)) (hc : Mk.St.check r m = none) :
    (PyTok.expect (.str n)).run s = .error "ParserSyntaxError" := by
  simp only [PyTok.expect, TM.run_bind, check_none h hr hc, ok_bind, truthy_bool, Bool.not_false,
    if_true, TM.run_throw, err_bind]

theorem consume_some {s : PyTok.St} {m m' : Mk.St} {n : Str} {r : Mk.Rule} {t : Str} (h : TokRel s m)
    (hr : PyTok.ruleOf n = some (.mk r)) (hc : Mk.St.check r m = some (t, m')) :
    (PyTok.consume (.str n)).run s = .ok (.none, adv s t) := by
  simp only [PyTok.consume, TM.run_bind, check_some h hr hc, ok_bind, truthy_bool,
    if_true, TM.run_pure, read_pend]

theorem consume_none {s : PyTok.St} {m : Mk.St} {n : Str} {r : Mk.Rule} (h : TokRel s m)
    (hr : PyTok.ruleOf n = some (.mk r)) (hc : Mk.St.check r m = none) :
    (PyTok.consume (.str n)).run s = .ok (.none, s) := by
  simp only [PyTok.consume, TM.run_bind, check_none h hr hc, ok_bind, truthy_bool, Bool.false_eq_true,
    if_false, TM.run_pure]

theorem charTS_check (r : Mk.Rule) (m : Mk.St) : Mk.charTS.check r m = Mk.St.check r m := by rfl

/-- `tokenizer.consume(name)` is `Mk.consume` -/
theorem consume_run {s : PyTok.St} {m : Mk.St} {n : Str} {r : Mk.Rule} (h : TokRel s m)
    (hr : PyTok.ruleOf n = some (.mk r)) :
    ∃ s', (PyTok.consume (.str n)).run s = .ok (.none, s') ∧ TokRel s' (Mk.consume Mk.charTS r m) := by
  simp only [Mk.consume, charTS_check]
  cases hc : Mk.St.check r m with
  | none => exact ⟨s, consume_none h hr hc, h⟩
  | some p =>
    obtain ⟨t, m'⟩ := p
    exact ⟨adv s t, consume_some h hr hc, tokrel_adv h hc⟩

theorem pend_pre (s : PyTok.St) (n t : Str) : (pend s n t).pre = s.pre := by rfl

theorem position_run (s : PyTok.St) : PyTok.position.run s = .ok (.int s.pre.length, s) := by
  simp only [PyTok.position, TM.run_bind, TM.run_get, ok_bind, TM.run_pure]

theorem enclosing_open_some {s : PyTok.St} {m m' : Mk.St} {n : Str} {r : Mk.Rule} {t : Str} (h : TokRel s m)
    (hr : PyTok.ruleOf n = some (.mk r)) (hc : Mk.St.check r m = some (t, m')) :
    (PyTok.enclosing_open (.str n)).run s = .ok (.int s.pre.length, adv s t) := by
  simp only [PyTok.enclosing_open, TM.run_bind, check_some h hr hc, ok_bind, truthy_bool,
    if_true, TM.run_pure, read_pend, position_run, pend_pre]

theorem enclosing_open_none {s : PyTok.St} {m : Mk.St} {n : Str} {r : Mk.Rule} (h : TokRel s m)
    (hr : PyTok.ruleOf n = some (.mk r)) (hc : Mk.St.check r m = none) :
    (PyTok.enclosing_open (.str n)).run s = .ok (.none, s) := by
  simp only [PyTok.enclosing_open, TM.run_bind, check_none h hr hc, ok_bind, truthy_bool, Bool.false_eq_true,
    if_false, TM.run_pure]

theorem enclosing_close_some {s : PyTok.St} {m m' : Mk.St} {n : Str} {r : Mk.Rule} {t : Str} (p : Int) (h : TokRel s m)
    (hr : PyTok.ruleOf n = some (.mk r)) (hc : Mk.St.check r m = some (t, m')) :
    (PyTok.enclosing_close (.int p) (.str n)).run s = .ok (.none, adv s t) := by
  simp only [PyTok.enclosing_close, isNone_int, Bool.false_eq_true, if_false, TM.run_bind, check_some h hr hc, ok_bind,
    truthy_bool, Bool.not_true, TM.run_pure, read_pend]

theorem enclosing_close_none {s : PyTok.St} {m : Mk.St} {n : Str} {r : Mk.Rule} (p : Int) (h : TokRel s m)
    (hr : PyTok.ruleOf n = some (.mk r)) (hc : Mk.St.check r m = none) :
    (PyTok.enclosing_close (.int p) (.str n)).run s = .error "ParserSyntaxError" := by
  simp only [PyTok.enclosing_close, isNone_int, Bool.false_eq_true, if_false, TM.run_bind, check_none h hr hc, ok_bind,
    truthy_bool, Bool.not_false, if_true, TM.run_throw, err_bind]

/-! ### the rule names -/
theorem rule_ws : PyTok.ruleOf (ofString "WS") = some (.mk .ws) := by rfl
theorem rule_variable : PyTok.ruleOf (ofString "VARIABLE") = some (.mk .variable) := by rfl
theorem rule_quoted : PyTok.ruleOf (ofString "QUOTED_STRING") = some (.mk .quoted) := by rfl
theorem rule_in : PyTok.ruleOf (ofString "IN") = some (.mk .kwIn) := by rfl
theorem rule_not : PyTok.ruleOf (ofString "NOT") = some (.mk .kwNot) := by rfl
theorem rule_op : PyTok.ruleOf (ofString "OP") = some (.mk .op) := by rfl
theorem rule_boolop : PyTok.ruleOf (ofString "BOOLOP") = some (.mk .boolop) := by rfl
theorem rule_lparen : PyTok.ruleOf (ofString "LEFT_PARENTHESIS") = some (.mk .lparen) := by rfl
theorem rule_rparen : PyTok.ruleOf (ofString "RIGHT_PARENTHESIS") = some (.mk .rparen) := by rfl
theorem rule_end : PyTok.ruleOf (ofString "END") = some (.mk .end_) := by rfl

/-! ## translated -/

theorem process_env_var_translated : Gen.PySrc.process_env_var_supported = true := rfl
theorem process_python_str_translated : Gen.PySrc.process_python_str_supported = true := rfl
theorem _parse_marker_var_translated : Gen.PySrc._parse_marker_var_supported = true := rfl
theorem _parse_marker_op_translated : Gen.PySrc._parse_marker_op_supported = true := rfl
theorem _parse_marker_item_translated : Gen.PySrc._parse_marker_item_supported = true := rfl
theorem _parse_marker_atom_translated : Gen.PySrc._parse_marker_atom_supported = true := rfl
theorem _parse_marker_translated : Gen.PySrc._parse_marker_supported = true := rfl
theorem _parse_full_marker_translated : Gen.PySrc._parse_full_marker_supported = true := rfl
theorem parse_marker_translated : Gen.PySrc.parse_marker_supported = true := rfl

/-! ## `process_env_var`, `process_python_str` -/

theorem node_init (c : String) (v : PyVal) : Gen.PySrc.Node.__init__ (.obj c []) v = .ok (.obj c [("value", v)]) := by rfl

theorem s_ppi : ofString "platform_python_implementation" = Mk.s_platform_python_implementation := by rfl
theorem s_pi : ofString "python_implementation" = Mk.s_python_implementation := by rfl

/-- `process_env_var` on the text after `.replace(".", "_")` -/
theorem process_env_var_eq_model (t : Str) :
    Gen.PySrc.process_env_var (.str (t.map fun c => if c == 46 then 95 else c)) = .ok (ofNode (Mk.processEnvVar t)) := by
  simp only [Gen.PySrc.process_env_var, PyRt.contains, pure_ok, ok_bind, List.any_cons, List.any_nil, eq_str, node_init,
    Mk.processEnvVar, s_ppi, s_pi, Bool.or_false]
  split <;> rfl

theorem str_replace_dot (t : Str) : PyRt.str_replace (.str t) (.str (ofString ".")) (.str (ofString "_")) =
    .ok (.str (t.map fun c => if c == 46 then 95 else c)) := by
  show Except.ok (PyVal.str (t.flatMap fun x => if x == 46 then [95] else [x])) = _
  congr 2
  induction t with
  | nil => rfl
  | cons c cs ih =>
    simp only [List.flatMap_cons, List.map_cons, ih]
    split <;> rfl

/-- … and composed with the caller's `.replace(".", "_")` -/
theorem process_env_var_replace (t : Str) :
    (PyRt.str_replace (.str t) (.str (ofString ".")) (.str (ofString "_")) >>= Gen.PySrc.process_env_var) =
      .ok (ofNode (Mk.processEnvVar t)) := by
  rw [str_replace_dot, ok_bind, process_env_var_eq_model]

theorem process_python_str_eq_model (tok : Str) :
    Gen.PySrc.process_python_str (.str tok) =
      match Mk.pyStrLit tok with
      | .ok v => .ok (ofNode (.val v))
      | .error (.raw .unicodeEncodeError) => .error "UnicodeEncodeError"
      | .error _ => .error "SyntaxError" := by
  simp only [Gen.PySrc.process_python_str, PyTok.literal_eval]
  cases h : Mk.pyStrLit tok with
  | ok v => simp only [pure_ok, ok_bind, str_str, node_init]; rfl
  | error e =>
    cases e with
    | raw x => cases x <;> rfl
    | _ => rfl

end Src
