import PkgModel.Generated.PySrc
import PkgModel.Filenames
import PkgProofs.Lemmas.PyFn
import PkgProofs.Lemmas.PyObj
import PkgProofs.Props.Src.Names
import PkgProofs.Props.Src.TagObj
/-!
# Translated source of `parse_sdist_filename`, `parse_wheel_filename` (`utils.py`) and `parse_tag` (`tags.py`)
= the model (`PkgModel/Filenames.lean`)

`Version(...)` is the run-time primitive backed by `V.scan`; the frozenset `parse_tag` returns is the list of the
distinct tags in the order of their first insertion (`PyRx.dedup`, see the header of `PkgModel/PyRx.lean`).
`Tag.__init__` lower-cases with the ASCII run-time function, the model with the full table: the tag statements
are for ASCII text (`∀ c ∈ s, c < 128`), where the two agree (`PyRx.lower_ascii`).
-/
namespace Src
open PyRt PyRx Py

theorem parse_sdist_filename_translated : Gen.PySrc.parse_sdist_filename_supported = true := rfl
theorem parse_tag_translated : Gen.PySrc.parse_tag_supported = true := rfl
theorem parse_wheel_filename_translated : Gen.PySrc.parse_wheel_filename_supported = true := rfl

theorem canonicalize_name_plain (s : Str) :
    Gen.PySrc.canonicalize_name (.str s) (.bool false) = .ok (.str (Names.canon s)) := by
  rw [canonicalize_name_eq_model]; rfl

theorem mkVersion_scan (s : Str) :
    mkVersion "Version" (.str s) = (match V.scan s with | some v => .ok (ofVer "Version" v) | none => .error "InvalidVersion") := by
  simp only [mkVersion]; cases V.scan s <;> rfl

/-- `parse_sdist_filename(filename)` for every string -/
theorem parse_sdist_filename_eq_model (f : Str) :
    Gen.PySrc.parse_sdist_filename (.str f) =
      match Fn.parseSdist f with
      | .ok (n, v) => .ok (.tuple [.str n, ofVer "Version" v])
      | .error _ => .error "InvalidSdistFilename" := by
  unfold Gen.PySrc.parse_sdist_filename Fn.parseSdist
  have e7 : (PyVal.int (-((ofString ".tar.gz").length : Int))) = PyVal.int (-((7 : Nat) : Int)) := rfl
  have e4 : (PyVal.int (-((ofString ".zip").length : Int))) = PyVal.int (-((4 : Nat) : Int)) := rfl
  have hs7 := getslice_str_neg f 7 (by omega)
  have hs4 := getslice_str_neg f 4 (by omega)
  simp only [str_endswith_str, ok_bind, truthy_bool, len_str, neg_int, e7, e4, hs7, hs4]
  simp only [show ofString ".tar.gz" = Fn.targz from rfl, show ofString ".zip" = Fn.zip from rfl,
    show ofString "-" = [45] from rfl, str_rpartition_single, rpartition_eq, unpack3, iterate_tuple, ok_bind, pure_bind]
  by_cases h1 : endsWith f Fn.targz = true
  · simp only [h1, if_true, ok_bind]
    cases hfound : (S.rpartition 45 (f.take (f.length - 7))).2.1
    · simp
    · simp only [if_true, truthy_str, List.isEmpty_cons, Bool.not_false, Bool.not_true, Bool.false_eq_true, if_false,
        canonicalize_name_plain, ok_bind, mkVersion_scan]
      cases V.scan (S.rpartition 45 (f.take (f.length - 7))).2.2 with
      | none => simp [catches]
      | some v => simp; rfl
  · by_cases h2 : endsWith f Fn.zip = true
    · simp only [h1, h2, if_true, Bool.false_eq_true, if_false, ok_bind]
      cases hfound : (S.rpartition 45 (f.take (f.length - 4))).2.1
      · simp
      · simp only [if_true, truthy_str, List.isEmpty_cons, Bool.not_false, Bool.not_true, Bool.false_eq_true, if_false,
          canonicalize_name_plain, ok_bind, mkVersion_scan]
        cases V.scan (S.rpartition 45 (f.take (f.length - 4))).2.2 with
        | none => simp [catches]
        | some v => simp; rfl
    · simp [h1, h2]

/-! ### `parse_tag` -/

theorem tag_eq_decide (a b : Fn.Tag) : Fn.Tag.eq (fun _ => 0) a b = decide (a = b) := by
  obtain ⟨i, x, p⟩ := a
  obtain ⟨i', x', p'⟩ := b
  simp only [Fn.Tag.eq, Fn.Tag.key, Fn.Tag.mk.injEq, beq_self_eq_true, Bool.true_and]
  by_cases h1 : p = p' <;> by_cases h2 : x = x' <;> by_cases h3 : i = i' <;> simp [h1, h2, h3]

/-- the equality function the translated code hands to the set primitives -/
def tagEqf : PyVal → PyVal → M PyVal :=
  fun __a __b => do pure (PyRt.eqResult false (← Gen.PySrc.Tag.__eq__ __a __b))

theorem tagEqf_ok (a b : Fn.Tag) : tagEqf (ofFnTag a) (ofFnTag b) = .ok (.bool (decide (a = b))) := by
  simp [tagEqf, Tag.__eq___eq_fn, eqResult, tag_eq_decide]

/-- a `set` / `frozenset` of tags -/
def ofTagSet (kind : String) (l : List Fn.Tag) : PyVal := mkSet kind (l.map ofFnTag)

theorem tag_init_fn (i a p : Str) (hi : ∀ c ∈ i, c < 128) (ha : ∀ c ∈ a, c < 128) (hp : ∀ c ∈ p, c < 128) :
    Gen.PySrc.Tag.__init__ (.obj "Tag" []) (.str i) (.str a) (.str p) = .ok (ofFnTag (Fn.mkTag i a p)) := by
  rw [Tag.__init___eq_model, ofFnTag, Fn.mkTag, Tags.mkTag, lower_ascii i hi, lower_ascii a ha, lower_ascii p hp]

/-- `parse_tag(tag)` for ASCII text: the distinct tags of the model's product, in order of first insertion;
the model's `none` is the bare `ValueError` of the three-way unpacking -/
theorem parse_tag_eq_model (s : Str) (hs : ∀ c ∈ s, c < 128) :
    Gen.PySrc.parse_tag (.str s) =
      match Fn.parseTag s with
      | some l => .ok (ofTagSet "frozenset" (dedup l))
      | none => .error "ValueError" := by
  unfold Gen.PySrc.parse_tag Fn.parseTag
  simp only [set_new, pure_ok, ok_bind, show ofString "-" = [45] from rfl, show ofString "." = [46] from rfl,
    str_split_single, unpack3, iterate_list]
  have hpieces : ∀ x ∈ splitOn 45 s, ∀ c ∈ x, c < 128 := fun x hx c hc => hs c (mem_of_mem_splitOn 45 s x hx c hc)
  rcases hsp : splitOn 45 s with _ | ⟨is, _ | ⟨as, _ | ⟨ps, _ | ⟨q, r⟩⟩⟩⟩
  · first | rfl | simp [genexp, PyRt.mapM, unpack3, iterate, list_, str_split_single]
  · first | rfl | simp [genexp, PyRt.mapM, unpack3, iterate, list_, str_split_single]
  · first | rfl | simp [genexp, PyRt.mapM, unpack3, iterate, list_, str_split_single]
  · rw [hsp] at hpieces
    have his : ∀ c ∈ is, c < 128 := hpieces is (by simp)
    have has : ∀ c ∈ as, c < 128 := hpieces as (by simp)
    have hps : ∀ c ∈ ps, c < 128 := hpieces ps (by simp)
    simp only [List.map_cons, List.map_nil, pure_bind, ok_bind, str_split_single, iterate_list, genexp, PyRt.mapM, pure_ok,
      list_iter, unpack3, set_new]
    have hq : ∀ (x l : Str), x ∈ splitOn 46 l → (∀ c ∈ l, c < 128) → ∀ c ∈ x, c < 128 :=
      fun x l hx hl c hc => hl c (mem_of_mem_splitOn 46 l x hx c hc)
    have inner : ∀ (i a : Str), (∀ c ∈ i, c < 128) → (∀ c ∈ a, c < 128) → ∀ t : List Fn.Tag,
        forIn (List.map PyVal.str (splitOn 46 ps)) (ofTagSet "set" t) (fun platform_ __s => do
          let __do_lift ← Gen.PySrc.Tag.__init__ (PyVal.obj "Tag" []) (.str i) (.str a) platform_
          let tags ← set_add (fun __a __b => do
              let __do_lift ← Gen.PySrc.Tag.__eq__ __a __b
              Except.ok (eqResult false __do_lift)) __s __do_lift
          Except.ok (ForInStep.yield tags))
        = .ok (ofTagSet "set" (((splitOn 46 ps).map fun p => Fn.mkTag i a p).foldl insertNew t)) := by
      intro i a hi ha t
      rw [forIn_strs_rep (splitOn 46 ps) (ofTagSet "set") t _ (fun p t => insertNew t (Fn.mkTag i a p)), List.foldl_map]
      intro p hp t
      simp only [tag_init_fn i a p hi ha (hq p ps hp hps), ok_bind, ofTagSet]
      rw [set_add_ok _ ofFnTag (fun a b => by simp [Tag.__eq___eq_fn, eqResult, tag_eq_decide])]
      rfl
    have middle : ∀ (i : Str), (∀ c ∈ i, c < 128) → ∀ t : List Fn.Tag,
        forIn (List.map PyVal.str (splitOn 46 as)) (ofTagSet "set" t) (fun abi __s => do
          let tags ← forIn (List.map PyVal.str (splitOn 46 ps)) __s (fun platform_ __s => do
            let __do_lift ← Gen.PySrc.Tag.__init__ (PyVal.obj "Tag" []) (.str i) abi platform_
            let tags ← set_add (fun __a __b => do
                let __do_lift ← Gen.PySrc.Tag.__eq__ __a __b
                Except.ok (eqResult false __do_lift)) __s __do_lift
            Except.ok (ForInStep.yield tags))
          Except.ok (ForInStep.yield tags))
        = .ok (ofTagSet "set" (((splitOn 46 as).flatMap fun a => (splitOn 46 ps).map fun p => Fn.mkTag i a p).foldl insertNew t)) := by
      intro i hi t
      rw [forIn_strs_rep (splitOn 46 as) (ofTagSet "set") t _
        (fun a t => ((splitOn 46 ps).map fun p => Fn.mkTag i a p).foldl insertNew t), foldl_flatMap']
      intro a ha t
      rw [inner i a hi (hq a as ha has) t]; rfl
    rw [show mkSet "set" [] = ofTagSet "set" [] from rfl,
      forIn_strs_rep (splitOn 46 is) (ofTagSet "set") [] _
        (fun i t => ((splitOn 46 as).flatMap fun a => (splitOn 46 ps).map fun p => Fn.mkTag i a p).foldl insertNew t),
      foldl_flatMap']
    · rfl
    · intro i hi t
      rw [middle i (hq i is hi his) t]; rfl
  · first
    | rfl
    | (simp [genexp, PyRt.mapM, unpack3, iterate, list_, str_split_single]; done)
    | (simp only [genexp, PyRt.mapM, unpack3, iterate, list_, str_split_single, List.map_cons, ok_bind, pure_ok, iterate_list,
         list_iter, List.length_cons]
       rw [mapM_ok _ (fun v => match v with | .str x => .list ((splitOn 46 x).map .str) | v => v) _
         (by intro x hx; simp only [List.mem_map] at hx; obtain ⟨y, _, rfl⟩ := hx; simp [str_split_single])]
       simp
       try rfl)

/-! ### `parse_wheel_filename` -/

def ofBuild : Option (Nat × Str) → PyVal
  | none => .tuple []
  | some (n, s) => .tuple [.int n, .str s]

/-- the 4-tuple `parse_wheel_filename` returns -/
def ofWheel (w : Fn.Wheel) : PyVal :=
  .tuple [.str w.name, ofVer "Version" w.ver, ofBuild w.build, ofTagSet "frozenset" (dedup w.tags)]

def ofWheelResult : Except Fn.WheelErr Fn.Wheel → M PyVal
  | .ok w => .ok (ofWheel w)
  | .error .rawTag => .error "ValueError"
  | .error _ => .error "InvalidWheelFilename"

theorem mem_take {α} (l : List α) (n : Nat) (x : α) (h : x ∈ l.take n) : x ∈ l := List.mem_of_mem_take h

/-- `parse_wheel_filename(filename)` for ASCII text (the restriction comes from `Tag.__init__`, see the header) -/
theorem parse_wheel_filename_eq_model (f : Str) (hf : ∀ c ∈ f, c < 128) :
    Gen.PySrc.parse_wheel_filename (.str f) = ofWheelResult (Fn.parseWheel f) := by
  unfold Gen.PySrc.parse_wheel_filename Fn.parseWheel
  have hs4 := getslice_str_neg f 4 (by omega)
  simp only [str_endswith_str, ok_bind, truthy_bool, show (PyVal.int (-4)) = PyVal.int (-((4 : Nat) : Int)) from rfl,
    len_str, neg_int, show List.length Fn.whl = 4 from rfl, hs4,
    show ofString ".whl" = Fn.whl from rfl, show ofString "-" = [45] from rfl, str_count_single]
  by_cases hext : endsWith f Fn.whl = true
  · simp only [hext, Bool.not_true, Bool.false_eq_true, if_false]
    generalize hstem : f.take (f.length - 4) = stem
    have hst : ∀ c ∈ stem, c < 128 := fun c hc => hf c (by rw [← hstem] at hc; exact List.mem_of_mem_take hc)
    generalize hd : stem.count 45 = d
    have hsub : ∀ k : Nat, 2 ≤ k → str_split_max (PyVal.str stem) (PyVal.str [45]) (.int ((k : Int) - 2)) =
        .ok (.list ((Fn.splitN 45 (k - 2) stem).map .str)) := by
      intro k hk
      have h0 : ¬ ((k : Int) - 2 < 0) := by omega
      have h1 : ((k : Int) - 2).toNat = k - 2 := by omega
      simp only [str_split_max, h0, if_false, h1, splitOnMax_eq_splitN, pure_ok]
    have hpa : ∀ k, ∀ p ∈ Fn.splitN 45 k stem, ∀ c ∈ p, c < 128 :=
      fun k p hp c hc => hst c (mem_of_mem_splitN 45 k stem p hp c hc)
    have hN := Src.names_patterns_supported
    by_cases h4 : d = 4
    · subst h4
      obtain ⟨p0, p1, p2, hparts⟩ := length_three _ (splitN_length 45 2 stem (by omega))
      have hp2 : ∀ c ∈ p2, c < 128 := hpa 2 p2 (by rw [hparts]; simp)
      have hsplit := hsub 4 (by omega)
      simp only [show ((4 : Nat) : Int) - 2 = 2 from rfl, show 4 - 2 = 2 from rfl, hparts] at hsplit
      simp only [contains, List.any_cons, List.any_nil, eq_int, show ((4 : Nat) : Int) = 4 from rfl, pure_ok, ok_bind,
        beq_self_eq_true, if_true, Bool.false_eq_true, if_false, show ((4 : Int) == 5) = false from rfl,
        sub_int, show (4 : Int) - 2 = 2 from rfl, hsplit, List.map_cons, List.map_nil, getitem_list_zero, getitem_list_one,
        in_, isInfix_dunder, show ofString "__" = [95, 95] from rfl, truthy_bool, pure_bind,
        show Gen.NameTables.wheelNameStructureOk = true from rfl, match_class_star_wheel, canonicalize_name_plain, mkVersion_scan,
        show getitem (PyVal.list [.str p0, .str p1, .str p2]) (PyVal.int (-1)) = .ok (.str p2) from rfl,
        parse_tag_eq_model p2 hp2, show (4 - 2) = 2 from rfl, hparts, List.headD_cons, List.getLastD_cons]
      cases hdu : Fn.hasDunder p0 <;> cases hno : Fn.nameOk p0 <;> cases hsc : V.scan p1 <;> cases hpt : Fn.parseTag p2 <;>
        simp [ofWheelResult, ofWheel, ofBuild, catches, is_none, List.getD, hdu, hno, hsc, hpt] <;> rfl
    · by_cases h5 : d = 5
      · subst h5
        obtain ⟨p0, p1, p2, p3, hparts⟩ := length_four _ (splitN_length 45 3 stem (by omega))
        have hp3 : ∀ c ∈ p3, c < 128 := hpa 3 p3 (by rw [hparts]; simp)
        have hsplit := hsub 5 (by omega)
        simp only [show ((5 : Nat) : Int) - 2 = 3 from rfl, show 5 - 2 = 3 from rfl, hparts] at hsplit
        have hbuild : ∀ (hne : (p2.takeWhile Fn.isUDigit).isEmpty = false),
            int_ (.str (p2.takeWhile Fn.isUDigit)) = .ok (.int (Fn.intU (p2.takeWhile Fn.isUDigit))) :=
          fun hne => int_digits _ hne (fun c hc => mem_takeWhile_p _ _ c hc)
        simp only [contains, List.any_cons, List.any_nil, eq_int, show ((5 : Nat) : Int) = 5 from rfl, pure_ok, ok_bind,
          beq_self_eq_true, if_true, Bool.false_eq_true, if_false, show ((5 : Int) == 4) = false from rfl,
          show getitem (PyVal.list [.str p0, .str p1, .str p2, .str p3]) (PyVal.int 1) = .ok (.str p1) from rfl,
          match_groups_match, unpack2,
          sub_int, show (5 : Int) - 2 = 3 from rfl, hsplit, List.map_cons, List.map_nil, getitem_list_zero, getitem_list_one,
          in_, isInfix_dunder, show ofString "__" = [95, 95] from rfl, truthy_bool, pure_bind,
          show Gen.NameTables.wheelNameStructureOk = true from rfl, match_class_star_wheel, canonicalize_name_plain, mkVersion_scan,
          show getitem (PyVal.list [.str p0, .str p1, .str p2, .str p3]) (PyVal.int (-1)) = .ok (.str p3) from rfl,
          show getitem (PyVal.list [.str p0, .str p1, .str p2, .str p3]) (PyVal.int 2) = .ok (.str p2) from rfl,
          show Gen.NameTables.buildStructureOk = true from rfl, match_two_runs_build,
          parse_tag_eq_model p3 hp3, show (5 - 2) = 3 from rfl, hparts, List.headD_cons, List.getLastD_cons, hd, Fn.parseBuild]
        cases hdu : Fn.hasDunder p0 <;> cases hno : Fn.nameOk p0 <;> cases hsc : V.scan p1 <;>
          cases hb : (p2.takeWhile Fn.isUDigit).isEmpty <;> cases hpt : Fn.parseTag p3 <;>
          simp [ofWheelResult, ofWheel, ofBuild, catches, is_none, List.getD, hdu, hno, hsc, hpt, hb, match_group, hbuild] <;> rfl
      · have e4 : ((d : Int) == 4) = false := by simp; omega
        have e5 : ((d : Int) == 5) = false := by simp; omega
        have e4' : (d != 4) = true := by simp [h4]
        have e5' : (d != 5) = true := by simp [h5]
        simp [contains, e4, e5, e4', e5', ofWheelResult]
  · simp [hext, ofWheelResult]

end Src
