import PkgModel.Generated.PySrc
import PkgModel.Elf
import PkgProofs.Lemmas.PyFn
/-!
# The translated `ELFFile` (x6) against the C16 model `Elf.lean`: value embeddings

An `ELFFile` instance is the record of the attributes `__init__` sets, in the order it sets them; the file object sits in
`_f` (`PyElf.fileOf data pos`).  The model's `Header` keeps the *decoded* layout (`le`, `pSizes`, `pIdx`), the instance keeps
the format *string* of the source: `elfObj` takes the string as a parameter and the theorems relate the two through the
run-time's reader of format strings (`PyElf.fmtSizes pfmt = some (h.le, h.pSizes)`).
-/
namespace Src
open PyRt Py Elf PyElf

/-- the instance `ELFFile.__init__` leaves behind for header `h` of file `f`, with the file position at `pos` and the
program-header format string `pfmt` -/
def elfObj (f : Bytes) (pos : Nat) (h : Header) (pfmt : Str) : PyVal :=
  .obj "ELFFile" [("_f", fileOf f pos), ("capacity", .int h.capacity), ("encoding", .int h.encoding),
    ("_p_fmt", .str pfmt), ("_p_idx", .tuple [.int h.pIdx.1, .int h.pIdx.2.1, .int h.pIdx.2.2]),
    ("machine", .int h.machine), ("_e_phoff", .int h.phoff), ("flags", .int h.flags),
    ("_e_phentsize", .int h.phentsize), ("_e_phnum", .int h.phnum)]

/-- the answer of `ELFFile.interpreter`: `ELFInvalid`, `None`, or the path — decoded only when it is ASCII (the run-time's
`os.fsdecode`) -/
def ofInterp : Except Unit (Option Bytes) → M PyVal
  | .error _ => .error "ELFInvalid"
  | .ok none => .ok .none
  | .ok (some b) => if b.all (· < 128) then .ok (.str b) else .error "PyRtUnsupported"

/-- a file of bytes -/
def IsBytes (f : Bytes) : Prop := ∀ b ∈ f, b < 256

end Src
