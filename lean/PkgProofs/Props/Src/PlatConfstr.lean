import PkgModel.Generated.PySrc
import PkgModel.Platform
import PkgProofs.Lemmas.PyRt
import PkgProofs.Lemmas.SrcRobust
/-!
# Translated source of `_manylinux._glibc_version_string_confstr` = the model `Plat.glibcVersionStringConfstr`

The probe `os.confstr("CS_GNU_LIBC_VERSION")` is an entry of the environment table; what the library does with its
answer — `None` is a failed assertion, `_, version = s.rsplit()` needs exactly two white-space separated fields, every
failure gives `None` — is the translated code.  `rsplit()` without arguments is `split()` (`PyLic.str_split0`, over the
white-space table measured from the interpreter); the platform model splits at ASCII white space, so the theorem is
stated for answers whose white space is ASCII (`AsciiWs`; `splitGo_eq_splitBy` is the bridge).

Partial: a probe that *raises* (`OSError`, `ValueError`: no `confstr`, unknown name) is not a value of the table; the
model folds it into `none`, the `plat.glibc` correspondence of C16 exercises it on the real code.
-/
set_option linter.unusedSimpArgs false
namespace Src
open PyRt Py

theorem _glibc_version_string_confstr_translated : Gen.PySrc._glibc_version_string_confstr_supported = true := rfl

theorem splitBy_ne_nil (p : Nat → Bool) : (s : Str) → splitBy p s ≠ []
  | [] => by simp [splitBy]
  | c :: cs => by
    simp only [splitBy]
    split
    · simp
    · split <;> simp

/-- the white space of `s` is ASCII white space (true of every ASCII string) -/
def AsciiWs (s : Str) : Prop := ∀ c ∈ s, Lic.isSpace c = isSpaceAscii c

/-- the accumulator-passing `split()` of the licence model and the `splitBy`/`filter` one of the platform model agree -/
theorem splitGo_eq_splitBy : (s acc : Str) → AsciiWs s →
    Lic.splitGo s acc = (match splitBy isSpaceAscii s with
      | [] => [acc]
      | q :: qs => (acc ++ q) :: qs).filter (fun x => !x.isEmpty)
  | [], acc, _ => by
    cases h : acc.isEmpty <;> simp [Lic.splitGo, splitBy, h]
  | c :: cs, acc, hs => by
    have hc : Lic.isSpace c = isSpaceAscii c := hs c (by simp)
    have hcs : AsciiWs cs := fun d hd => hs d (by simp [hd])
    have ih0 := splitGo_eq_splitBy cs [] hcs
    have ih1 := splitGo_eq_splitBy cs (acc ++ [c]) hcs
    have hne := splitBy_ne_nil isSpaceAscii cs
    cases hsp : splitBy isSpaceAscii cs with
    | nil => exact absurd hsp hne
    | cons q qs =>
      rw [hsp] at ih0 ih1
      simp only [List.nil_append] at ih0
      cases hp : isSpaceAscii c with
      | true =>
        simp only [Lic.splitGo, hc, hp, if_true, splitBy, hsp, List.append_nil]
        cases ha : acc.isEmpty <;> simp [ha, ih0]
      | false =>
        simp only [Lic.splitGo, hc, hp, Bool.false_eq_true, if_false, splitBy, hsp, ih1, List.append_assoc, List.singleton_append]

theorem split_eq_splitWs (s : Str) (h : AsciiWs s) : Lic.split s = Plat.splitWs s := by
  have := splitGo_eq_splitBy s [] h
  have hne := splitBy_ne_nil isSpaceAscii s
  unfold Lic.split Plat.splitWs
  cases hsp : splitBy isSpaceAscii s with
  | nil => exact absurd hsp hne
  | cons q qs => rw [hsp] at this; simpa using this

/-- the answer of the probe as a Python value -/
def ofConfstr : Option Str → PyVal
  | none => .none
  | some s => .str s

/-- **`_glibc_version_string_confstr()` = the model**, for every table in which the probe answers `o` -/
theorem _glibc_version_string_confstr_eq_model (env : PyRt.Env) (o : Option Str)
    (h : env_call env "os.confstr" [.str (ofString "CS_GNU_LIBC_VERSION")] = .ok (ofConfstr o))
    (hw : ∀ s, o = some s → AsciiWs s) :
    Gen.PySrc._glibc_version_string_confstr env =
      .ok (match Plat.glibcVersionStringConfstr o with | none => .none | some v => .str v) := by
  unfold Gen.PySrc._glibc_version_string_confstr Plat.glibcVersionStringConfstr
  cases o with
  | none =>
    simp only [h, ofConfstr]
    src_simp [assertionError, catches]
  | some s =>
    have e := split_eq_splitWs s (hw s rfl)
    have hsplit : PyLic.str_split0 (.str s) = .ok (.list ((Plat.splitWs s).map .str)) := by
      rw [← e]; rfl
    have hnn : isNone (.str s) = false := by rfl
    simp only [h, ofConfstr, ok_bind, hnn, Bool.not_false, Bool.not_true, Bool.false_eq_true, if_false, hsplit]
    rcases hsp : Plat.splitWs s with _ | ⟨a, _ | ⟨b, _ | ⟨c, r⟩⟩⟩ <;>
      (first | (src_simp [unpack2, iterate, valueError, catches, isNone]; done) | (src_simp [unpack2, iterate, valueError, catches, isNone]; rfl))

end Src
