import PkgModel.Generated.PySrc
import PkgModel.PyMarker
import PkgProofs.Lemmas.PyRt
import PkgProofs.Lemmas.SrcRobust
/-!
# Translated source of `packaging.markers` (formatting, equality, hash, `extra` normalisation) = the model

`Gen.PySrc._format_marker`, `Marker.__str__`, `Marker.__eq__`, `Marker.__hash__`, `_normalize_extra_values` are the Lean
translations of the current Python source; the theorems say that on the views (`PyMk.ofML`, `PyMk.ofMarker`) of the
model's trees they compute the views of what `Mk.fmtL`, `Mk.str`, `Mk.eq`, `Mk.hashKey`, `Mk.normalizeExtra` compute.

The recursive functions are translated with a fuel argument; the proofs are by induction on the fuel against a depth
measure of the tree, and the entry points start with more fuel than the depth (`depth ≤ size`).
-/
namespace Src
open PyRt Py PyMk
set_option linter.unusedSimpArgs false

theorem _format_marker_translated : Gen.PySrc._format_marker_supported = true := rfl
theorem _normalize_extra_values_translated : Gen.PySrc._normalize_extra_values_supported = true := rfl
theorem Marker.__str___translated : Gen.PySrc.Marker.__str___supported = true := rfl
theorem Marker.__eq___translated : Gen.PySrc.Marker.__eq___supported = true := rfl
theorem Marker.__hash___translated : Gen.PySrc.Marker.__hash___supported = true := rfl

namespace MarkerFmt

/-! ### general run-time facts -/

/-- `mapM` over the view of a typed list -/
theorem mapM_map_ok {α} (f : PyVal → M PyVal) (v : α → PyVal) (g : α → PyVal) (l : List α)
    (h : ∀ x ∈ l, f (v x) = .ok (g x)) : PyRt.mapM f (l.map v) = .ok (l.map g) := by
  induction l with
  | nil => rfl
  | cons x xs ih =>
    simp only [List.map_cons, PyRt.mapM, h x (List.mem_cons_self ..), ok_bind,
      ih (fun y hy => h y (List.mem_cons_of_mem _ hy)), pure_ok]

theorem isInfix_singleton (s : Str) (c : Nat) : isInfix s [c] = s.contains c := by
  induction s with
  | nil => rfl
  | cons x xs ih =>
    simp only [isInfix, startsWith, ih, List.contains_cons]
    by_cases h : x = c
    · subst h; simp
    · have h1 : (x == c) = false := by simpa using h
      have h2 : (c == x) = false := by simpa using (fun e => h e.symm)
      simp [h1, h2]

theorem contains_str_singleton (s : Str) (c : Nat) : PyRt.contains (.str s) (.str [c]) = .ok (s.contains c) := by
  simp only [PyRt.contains, pure_ok, isInfix_singleton]

theorem s_space : Py.ofString " " = [32] := by decide
theorem s_lpar : Py.ofString "(" = [40] := by decide
theorem s_rpar : Py.ofString ")" = [41] := by decide
theorem s_apos : Py.ofString "'" = [39] := by decide

/-! ### the views -/

theorem ofMs_eq_map : (l : List Mk.M) → ofMs l = l.map ofM
  | [] => by simp [ofMs]
  | m :: ms => by simp [ofMs, ofMs_eq_map ms]

theorem fmtEach_eq_map : (l : List Mk.M) → Mk.fmtEach l = l.map (fun m => Mk.fmtM m false)
  | [] => by simp [Mk.fmtEach]
  | m :: ms => by simp [Mk.fmtEach, fmtEach_eq_map ms]

/-! ### `serialize` -/

theorem serialize_ofNode (n : Mk.Node) : Gen.PySrc.serialize__dyn (ofNode n) = .ok (.str n.serialize) := by
  cases n with
  | var s =>
    simp [Gen.PySrc.serialize__dyn, ofNode, Gen.PySrc.Variable.serialize, Gen.PySrc.Node.__str__, Mk.Node.serialize]
  | val s =>
    simp [Gen.PySrc.serialize__dyn, ofNode, Gen.PySrc.Value.serialize, Gen.PySrc.Node.__str__, Mk.Node.serialize,
      contains_str_singleton, s_apos]
    split <;> rfl

theorem serialize_ofOp (s : Str) : Gen.PySrc.serialize__dyn (ofOp s) = .ok (.str s) := by
  simp [Gen.PySrc.serialize__dyn, ofOp, Gen.PySrc.Op.serialize, Gen.PySrc.Node.__str__]

/-! ### class tests on the views -/

theorem isinstance_list (l : List PyVal) (cs : List String) : isinstance (.list l) cs = cs.contains "list" := by
  simp [isinstance]
theorem isinstance_tuple (l : List PyVal) (cs : List String) : isinstance (.tuple l) cs = cs.contains "tuple" := by
  simp [isinstance]
theorem isinstance_str (s : Str) (cs : List String) : isinstance (.str s) cs = cs.contains "str" := by
  simp [isinstance]
theorem isinstance_obj (c : String) (fs) (cs : List String) (h : c ≠ "bool") : isinstance (.obj c fs) cs = cs.contains c := by
  simp [isinstance, h]

/-! ### depth of a tree: the fuel `_format_marker` / `_normalize_extra_values` need -/

mutual
def depthM : Mk.M → Nat
  | .atom _ => 1
  | .bool _ => 1
  | .list l => depthL l + 1
def depthL : List Mk.M → Nat
  | [] => 0
  | m :: ms => max (depthM m) (depthL ms)
end

theorem depthM_le_of_mem : (l : List Mk.M) → (x : Mk.M) → x ∈ l → depthM x ≤ depthL l
  | [], x, h => by simp at h
  | m :: ms, x, h => by
    simp only [depthL]
    rcases List.mem_cons.mp h with rfl | h
    · omega
    · have := depthM_le_of_mem ms x h; omega

/-! ### `_format_marker` -/

theorem format_atom (n : Nat) (a : Mk.Atom) (first : PyVal) :
    Gen.PySrc._format_marker__fuel (n + 1) (ofAtom a) first = .ok (.str a.serialize) := by
  simp [Gen.PySrc._format_marker__fuel, ofAtom, isinstance_tuple, genexp, PyRt.mapM, serialize_ofNode, serialize_ofOp,
    str_join, joinStrs, s_space, Mk.Atom.serialize]

theorem format_str (n : Nat) (s : Str) (first : PyVal) :
    Gen.PySrc._format_marker__fuel (n + 1) (.str s) first = .ok (.str s) := by
  simp [Gen.PySrc._format_marker__fuel, isinstance_str]

/-- the general branch of a list: every element formatted with `first=False`, joined, in parentheses unless `first` -/
theorem format_list_general (n : Nat) (l : List Mk.M) (first : Bool)
    (hl : ∀ x, l = [x] → Mk.isListOrTuple x = false)
    (ih : ∀ m ∈ l, Gen.PySrc._format_marker__fuel n (ofM m) (.bool false) = .ok (.str (Mk.fmtM m false))) :
    Gen.PySrc._format_marker__fuel (n + 1) (ofML l) (.bool first) =
      .ok (.str (Mk.wrapParens first (Py.join [32] (Mk.fmtEach l)))) := by
  have hg : genexp (fun m => Gen.PySrc._format_marker__fuel n m (.bool false)) (.list (l.map ofM)) =
      .ok (.iter ((l.map fun m => Mk.fmtM m false).map .str)) := by
    simp only [genexp, iterate_list, ok_bind,
      mapM_map_ok (fun m => Gen.PySrc._format_marker__fuel n m (.bool false)) ofM (fun m => .str (Mk.fmtM m false)) l ih,
      pure_ok, List.map_map]
    rfl
  -- symbolic evaluation: nothing below names the order of the `isinstance` dispatch or the way the parentheses are added
  have hx1 : ∀ x, l = [x] → isinstance (ofM x) ["list", "tuple"] = false := by
    intro x hx
    have := hl x hx
    cases x <;> simp_all [Mk.isListOrTuple, ofM, isinstance_str, isinstance_list, isinstance_tuple, ofAtom]
  rw [fmtEach_eq_map]
  -- keep the formatted pieces opaque, so that joining them is one rewrite whatever the shape of `l`
  generalize hL : l.map (fun m => Mk.fmtM m false) = L at hg ⊢
  rcases l with _ | ⟨x, _ | ⟨y, r⟩⟩
  · simp only [List.map_nil] at hg
    cases first <;>
      src_simp [Gen.PySrc._format_marker__fuel, ofML, ofMs_eq_map, isinstance_list, PyRt.eq, s_space, s_lpar, s_rpar, hg,
        str_join_iter, Mk.wrapParens, add]
  · have hx := hx1 x rfl
    simp only [List.map_cons, List.map_nil] at hg
    cases first <;>
      src_simp [Gen.PySrc._format_marker__fuel, ofML, ofMs_eq_map, isinstance_list, PyRt.eq, s_space, s_lpar, s_rpar, hg, hx,
        str_join_iter, Mk.wrapParens, add]
  · have hr : ¬ ((r.length : Int) + 1 + 1 = 1) := by omega
    simp only [List.map_cons] at hg
    cases first <;>
      src_simp [Gen.PySrc._format_marker__fuel, ofML, ofMs_eq_map, isinstance_list, PyRt.eq, s_space, s_lpar, s_rpar, hg, hr,
        str_join_iter, Mk.wrapParens, add]

/-- the short cut: a one-element list whose element is a list or a tuple is formatted as that element, `first` passed on -/
theorem format_list_single (n : Nat) (x first : PyVal) (hx : isinstance x ["list", "tuple"] = true) :
    Gen.PySrc._format_marker__fuel (n + 1) (.list [x]) first = Gen.PySrc._format_marker__fuel n x first := by
  simp [Gen.PySrc._format_marker__fuel, isinstance_list, PyRt.eq, hx]

theorem fmtL_general : (l : List Mk.M) → (first : Bool) → (∀ x, l = [x] → Mk.isListOrTuple x = false) →
    Mk.fmtL l first = Mk.wrapParens first (Py.join [32] (Mk.fmtEach l))
  | [], first, _ => by simp [Mk.fmtL, Mk.fmtEach, Py.join]
  | [.bool s], first, _ => by simp [Mk.fmtL, Mk.fmtEach, Py.join, Mk.fmtM]
  | [.atom a], first, h => by simpa [Mk.isListOrTuple] using h _ rfl
  | [.list k], first, h => by simpa [Mk.isListOrTuple] using h _ rfl
  | m₁ :: m₂ :: ms, first, _ => by simp [Mk.fmtL, Mk.fmtEach]

theorem format_fuel : (n : Nat) → (m : Mk.M) → (first : Bool) → depthM m ≤ n →
    Gen.PySrc._format_marker__fuel n (ofM m) (.bool first) = .ok (.str (Mk.fmtM m first))
  | 0, m, first, h => by cases m <;> simp [depthM] at h
  | n + 1, .atom a, first, _ => by simpa [ofM, Mk.fmtM] using format_atom n a (.bool first)
  | n + 1, .bool s, first, _ => by simpa [ofM, Mk.fmtM] using format_str n s (.bool first)
  | n + 1, .list l, first, h => by
    have hd : depthL l ≤ n := by simpa [depthM] using h
    have ih : ∀ m ∈ l, ∀ b, Gen.PySrc._format_marker__fuel n (ofM m) (.bool b) = .ok (.str (Mk.fmtM m b)) :=
      fun m hm b => format_fuel n m b (Nat.le_trans (depthM_le_of_mem l m hm) hd)
    by_cases hs : ∀ x, l = [x] → Mk.isListOrTuple x = false
    · simp only [ofM, Mk.fmtM, fmtL_general l first hs]
      exact format_list_general n l first hs (fun m hm => ih m hm false)
    · simp only [Classical.not_forall] at hs
      obtain ⟨x, rfl, hx⟩ := hs
      have := ih x (List.mem_singleton.mpr rfl) first
      cases x with
      | bool s => simp [Mk.isListOrTuple] at hx
      | atom a =>
        simp only [ofM, ofMs, Mk.fmtM, Mk.fmtL] at this ⊢
        rw [format_list_single n _ _ (by simp [ofAtom, isinstance_tuple]), this]
      | list k =>
        simp only [ofM, ofMs, Mk.fmtM, Mk.fmtL] at this ⊢
        rw [format_list_single n _ _ (by simp [isinstance_list]), this]

/-! ### the fuel of the entry points is enough -/

mutual
theorem depthM_le_size : (m : Mk.M) → depthM m ≤ size (ofM m)
  | .atom a => by simp only [depthM, ofM, ofAtom, size]; omega
  | .bool s => by simp only [depthM, ofM, size]; omega
  | .list l => by have := depthL_le_sizeL l; simp only [depthM, ofM, size]; omega
theorem depthL_le_sizeL : (l : List Mk.M) → depthL l ≤ sizeL (ofMs l)
  | [] => by simp [depthL]
  | m :: ms => by
    have := depthM_le_size m
    have := depthL_le_sizeL ms
    simp only [depthL, ofMs, sizeL]; omega
end

theorem depth_lt_fuelOf (l : List Mk.M) (rest : List PyVal) : depthM (.list l) ≤ fuelOf (ofML l :: rest) := by
  have := depthL_le_sizeL l
  simp only [depthM, fuelOf, sizeL, ofML, size]; omega

theorem getattr_markers (m : List Mk.M) : getattr (ofMarker m) "_markers" = .ok (ofML m) := by
  simp [ofMarker]

end MarkerFmt
open MarkerFmt

/-- `_format_marker(markers, first)` on a `MarkerList` -/
theorem _format_marker_eq_model (l : List Mk.M) (first : Bool) :
    Gen.PySrc._format_marker (ofML l) (.bool first) = .ok (.str (Mk.fmtL l first)) := by
  unfold Gen.PySrc._format_marker
  exact format_fuel _ (.list l) first (depth_lt_fuelOf l _)

/-- `str(marker)` -/
theorem Marker.__str___eq_model (m : List Mk.M) : Gen.PySrc.Marker.__str__ (ofMarker m) = .ok (.str (Mk.str m)) := by
  simp only [Gen.PySrc.Marker.__str__, getattr_markers, ok_bind, _format_marker_eq_model, pure_ok, Mk.str]

/-- `marker == other` for two markers -/
theorem Marker.__eq___eq_model (a b : List Mk.M) :
    Gen.PySrc.Marker.__eq__ (ofMarker a) (ofMarker b) = .ok (.bool (Mk.eq a b)) := by
  have hi : isinstance (ofMarker b) ["Marker"] = true := by simp [ofMarker, isinstance]
  simp [Gen.PySrc.Marker.__eq__, hi, Marker.__str___eq_model, PyRt.eq, Mk.eq]

/-- `marker == other` for anything that is not a `Marker`: `NotImplemented` -/
theorem Marker.__eq___not_marker (a : List Mk.M) (o : PyVal) (h : PyRt.isinstance o ["Marker"] = false) :
    Gen.PySrc.Marker.__eq__ (ofMarker a) o = .ok .notImpl := by
  simp [Gen.PySrc.Marker.__eq__, h]

/-- `hash(marker)`: the (symbolic) hash of `("Marker", str(marker))` -/
theorem Marker.__hash___eq_model (a : List Mk.M) :
    Gen.PySrc.Marker.__hash__ (ofMarker a) =
      .ok (.tuple [.str (ofString "__hash__"), .tuple [.str (Mk.hashKey a).1, .str (Mk.hashKey a).2]]) := by
  have hc : Py.ofString (className (ofMarker a)) = [77, 97, 114, 107, 101, 114] := by
    simp only [ofMarker, className_obj]; decide
  simp [Gen.PySrc.Marker.__hash__, Marker.__str___eq_model, hash_sym, hc, Mk.hashKey]

/-! ### `_normalize_extra_values` -/

namespace MarkerFmt

theorem setitem_list_nat (xs : List PyVal) (i : Nat) (y : PyVal) (h : i < xs.length) :
    setitem (.list xs) (.int i) y = .ok (.list (xs.set i y)) := by
  simp [setitem, asInt, normIndex, h]

theorem set_self_of_getElem? {α} (xs : List α) (i : Nat) (y : α) (h : xs[i]? = some y) : xs.set i y = xs := by
  induction xs generalizing i with
  | nil => rfl
  | cons a as ih =>
    cases i with
    | zero => simp at h; simp [h]
    | succ j => simp at h; simp [ih j h]

theorem unpack2_tuple (a b : PyVal) : unpack2 (.tuple [a, b]) = .ok (a, b) := by rfl
theorem unpack3_tuple (a b c : PyVal) : unpack3 (.tuple [a, b, c]) = .ok (a, b, c) := by rfl

/-- a `for index, x in enumerate(results)` loop whose body replaces `results[index]` by `g x` (and may change the rest of
the state), followed by `k`: the items are those of the list as it was when the loop started -/
theorem forIn_enum_set {σ α β : Type} (proj : σ → PyVal) (v g : α → PyVal) (l : List α)
    (f : PyVal → σ → M (ForInStep σ)) (k : σ → M β) (R : M β)
    (hf : ∀ (i : Nat) (x : α) (s : σ) (xs : List PyVal), x ∈ l → proj s = .list xs → xs[i]? = some (v x) →
      ∃ s', f (.tuple [.int i, v x]) s = .ok (.yield s') ∧ proj s' = .list (xs.set i (g x)))
    (hk : ∀ s', proj s' = .list (l.map g) → k s' = R) :
    ∀ init, proj init = .list (l.map v) → (forIn (enumerateFrom 0 (l.map v)) init f >>= k) = R := by
  have main : ∀ (rest : List α) (pre : List PyVal) (s : σ), (∀ x ∈ rest, x ∈ l) → proj s = .list (pre ++ rest.map v) →
      ∃ s', forIn (enumerateFrom pre.length (rest.map v)) s f = .ok s' ∧ proj s' = .list (pre ++ rest.map g) := by
    intro rest
    induction rest with
    | nil => intro pre s _ hs; exact ⟨s, by simp [enumerateFrom], by simpa using hs⟩
    | cons x r ih =>
      intro pre s hm hs
      obtain ⟨s₁, h₁, hp₁⟩ := hf pre.length x s _ (hm x (List.mem_cons_self ..)) hs (by simp)
      have hp₁' : proj s₁ = .list ((pre ++ [g x]) ++ r.map v) := by simpa using hp₁
      obtain ⟨s₂, h₂, hp₂⟩ := ih (pre ++ [g x]) s₁ (fun y hy => hm y (List.mem_cons_of_mem _ hy)) hp₁'
      refine ⟨s₂, ?_, by simpa using hp₂⟩
      simp only [List.map_cons, enumerateFrom, List.forIn_cons, h₁, ok_bind]
      simpa using h₂
  intro init hi
  obtain ⟨s', h, hp⟩ := main l [] init (fun _ h => h) (by simpa using hi)
  simp only [List.length_nil] at h
  rw [h, ok_bind]
  exact hk s' (by simpa using hp)

theorem normalizeExtra_eq_map (X : Mk.Ext) : (l : List Mk.M) → Mk.normalizeExtra X l = l.map (Mk.normM X)
  | [] => by simp [Mk.normalizeExtra]
  | m :: ms => by simp [Mk.normalizeExtra, normalizeExtra_eq_map X ms]

theorem s_extra_eq : Py.ofString "extra" = Mk.s_extra := by decide

theorem node_init_value (v : PyVal) :
    Gen.PySrc.Node.__init__ (.obj "Value" []) v = .ok (.obj "Value" [("value", v)]) := by
  simp [Gen.PySrc.Node.__init__, setattr, setField]

theorem canon_call (O : PyMk.Oracle) (s : Str) :
    ext_call O.ext "canonicalize_name" [.str s, .bool false] = .ok (.str (O.canon s)) := by
  simp [ext_call, Oracle.ext]

theorem getattr_ofNode_value (n : Mk.Node) : getattr (ofNode n) "value" = .ok (.str n.value) := by
  cases n <;> simp [ofNode, Mk.Node.value]

theorem isinstance_ofNode_variable (n : Mk.Node) : isinstance (ofNode n) ["Variable"] = n.isVar := by
  cases n <;> simp [ofNode, isinstance, Mk.Node.isVar]

theorem isExtraVar_eq (n : Mk.Node) : Mk.isExtraVar n = (n.isVar && n.value == Mk.s_extra) := by
  cases n <;> simp [Mk.isExtraVar, Mk.Node.isVar, Mk.Node.value]

theorem normalize_fuel (O : PyMk.Oracle) : (n : Nat) → (l : List Mk.M) → depthL l + 1 ≤ n →
    Gen.PySrc._normalize_extra_values__fuel O.ext n (ofML l) = .ok (ofML (Mk.normalizeExtra O.toExt l))
  | 0, l, h => by omega
  | n + 1, l, h => by
    simp only [Gen.PySrc._normalize_extra_values__fuel, ofML, ofMs_eq_map, enumerate, iterate_list, iterate_iter, ok_bind,
      pure_ok, normalizeExtra_eq_map, List.map_map]
    refine forIn_enum_set Prod.fst ofM (fun m => ofM (Mk.normM O.toExt m)) l _ _ _ ?hf ?hk _ rfl
    case hk =>
      intro s' hs'
      simp only [hs', Function.comp_def]
    case hf =>
      intro i x s xs hx hs hxs
      obtain ⟨res, srest⟩ := s          -- `results` first, then however many other mutable locals the body has
      simp only at hs
      subst hs
      have hi : i < xs.length := by
        rcases Nat.lt_or_ge i xs.length with h | h
        · exact h
        · simp [List.getElem?_eq_none h] at hxs
      cases x with
      | bool t =>
        simp [unpack2_tuple, ofM, isinstance_str, Mk.normM]
        exact (set_self_of_getElem? xs i _ (by simpa [ofM] using hxs)).symm
      | list k =>
        have hk : depthL k + 1 ≤ n := by
          have := depthM_le_of_mem l _ hx
          simp only [depthM] at this; omega
        have ih := normalize_fuel O n k hk
        simp only [ofML] at ih
        simp [unpack2_tuple, ofM, isinstance_list, Mk.normM, ih, setitem_list_nat _ _ _ hi]
      | atom a =>
        obtain ⟨lhs, op, rhs⟩ := a
        simp only [unpack2_tuple, unpack3_tuple, ofM, ofAtom, isinstance_tuple, ok_bind, isinstance_ofNode_variable,
          getattr_ofNode_value, canon_call, node_init_value, setitem_list_nat _ _ _ hi, PyRt.eq, eq_str, s_extra_eq,
          truthy_bool, pure_ok, Mk.normM, Mk.normAtom, isExtraVar_eq]
        generalize lhs.isVar = b1
        generalize (lhs.value == Mk.s_extra) = b2
        generalize rhs.isVar = b3
        generalize (rhs.value == Mk.s_extra) = b4
        cases b1 <;> cases b2 <;> cases b3 <;> cases b4 <;> simp [ofNode, Oracle.toExt]

end MarkerFmt

/-- `_normalize_extra_values(results)` on a `MarkerList`: every tuple at every depth that compares `extra` gets the other
side canonicalised (`canonicalize_name` through the oracle) -/
theorem _normalize_extra_values_eq_model (O : PyMk.Oracle) (l : List Mk.M) :
    Gen.PySrc._normalize_extra_values O.ext (ofML l) = .ok (ofML (Mk.normalizeExtra O.toExt l)) := by
  unfold Gen.PySrc._normalize_extra_values
  refine normalize_fuel O _ l ?_
  have := depthL_le_sizeL l
  simp only [fuelOf, sizeL, ofML, size]; omega

end Src
