import PkgProofs.Props.Src.VersionStr
import PkgModel.PyX7
/-!
# Seventh round, `version.py`: `Version.major/minor/micro/is_devrelease/__repr__`, `parse`, `_parse_local_version`
= the model's `Ver.major/minor/micro/isDev`, `Ver.repr`, `V.parse` (= `V.scan`), `V.parseLocalVersion`
-/
namespace Src
open PyRt Py V

theorem x7_version_translated :
    (Gen.PySrc.Version.major_supported && Gen.PySrc.Version.minor_supported && Gen.PySrc.Version.micro_supported &&
     Gen.PySrc.Version.is_devrelease_supported && Gen.PySrc.Version.__repr___supported && Gen.PySrc.parse_supported &&
     Gen.PySrc._parse_local_version_supported) = true := rfl

theorem Version.major_translated : Gen.PySrc.Version.major_supported = true := rfl
theorem Version.minor_translated : Gen.PySrc.Version.minor_supported = true := rfl
theorem Version.micro_translated : Gen.PySrc.Version.micro_supported = true := rfl
theorem Version.is_devrelease_translated : Gen.PySrc.Version.is_devrelease_supported = true := rfl
theorem Version.__repr___translated : Gen.PySrc.Version.__repr___supported = true := rfl
theorem parse_translated : Gen.PySrc.parse_supported = true := rfl
theorem _parse_local_version_translated : Gen.PySrc._parse_local_version_supported = true := rfl

/-- `self.release[k] if len(self.release) >= k + 1 else 0` -/
theorem release_component (r : List Nat) (k : Nat) :
    (do if (← PyRt.cmp .ge (← PyRt.len (ofRelease r)) (PyVal.int ((k + 1 : Nat) : Int)))
        then (do PyRt.getitem (ofRelease r) (PyVal.int (k : Int))) else (pure (PyVal.int 0)) : M PyVal)
      = .ok (.int (r.getD k 0 : Nat)) := by
  simp only [ofRelease, len_tuple, ok_bind, List.length_map, cmp, asInt, Cmp.onInt, pure_ok]
  by_cases h : k + 1 ≤ r.length
  · have : decide ((r.length : Int) ≥ ((k + 1 : Nat) : Int)) = true := by simp; omega
    simp only [this, if_true]
    have h0 : (0 : Int) ≤ (k : Int) := by omega
    have hlt : k < r.length := by omega
    have hg : r[k]? = some (r[k]'(by omega)) := List.getElem?_eq_getElem (by omega)
    simp [getitem, normIndex, asInt, h0, hlt, ofNat, hg]
  · have : decide ((r.length : Int) ≥ ((k + 1 : Nat) : Int)) = false := by simp; omega
    simp only [this, Bool.false_eq_true, if_false]
    have hn : r[k]? = none := List.getElem?_eq_none (by omega)
    simp [hn]

/-- `Version.major` (on a `_TrimmedRelease` the trimmed release is read) -/
theorem Version.major_eq_model (cls : String) (v : Ver) :
    Gen.PySrc.Version.major (ofVer cls v) = .ok (.int (viewOf cls v).major) := by
  unfold Gen.PySrc.Version.major
  simp only [release_dispatch, ok_bind]
  exact release_component (releaseOf cls v) 0

theorem Version.minor_eq_model (cls : String) (v : Ver) :
    Gen.PySrc.Version.minor (ofVer cls v) = .ok (.int (viewOf cls v).minor) := by
  unfold Gen.PySrc.Version.minor
  simp only [release_dispatch, ok_bind]
  exact release_component (releaseOf cls v) 1

theorem Version.micro_eq_model (cls : String) (v : Ver) :
    Gen.PySrc.Version.micro (ofVer cls v) = .ok (.int (viewOf cls v).micro) := by
  unfold Gen.PySrc.Version.micro
  simp only [release_dispatch, ok_bind]
  exact release_component (releaseOf cls v) 2

theorem Version.is_devrelease_eq_model (cls : String) (v : Ver) :
    Gen.PySrc.Version.is_devrelease (ofVer cls v) = .ok (.bool v.isDev) := by
  unfold Gen.PySrc.Version.is_devrelease
  simp only [Version.dev_eq_model, ok_bind, pure_ok]
  cases hd : v.dev <;> simp [Ver.isDev, hd, ofOptNat, is_not_none]

theorem Version.__repr___eq_model (cls : String) (v : Ver) (h : v.loc ≠ some []) :
    Gen.PySrc.Version.__repr__ (ofVer cls v) = .ok (.str (viewOf cls v).repr) := by
  unfold Gen.PySrc.Version.__repr__
  simp [Version.__str___eq_model cls v h, Ver.repr]

/-- `version.parse(s)`: the `Version` the scanner finds, or `InvalidVersion` -/
theorem parse_eq_model (s : Str) :
    Gen.PySrc.parse (.str s) = match V.parse s with | some v => .ok (ofVer "Version" v) | none => .error "InvalidVersion" := by
  unfold Gen.PySrc.parse V.parse
  simp only [mkVersion]
  cases scan s <;> rfl

theorem inRanges_isSep : PyRx.inRanges [(45, 46), (95, 95)] = isSep := by
  funext c
  simp only [PyRx.inRanges, isSep, List.any_cons, List.any_nil, Bool.or_false]
  by_cases h1 : c = 45
  · subst h1; rfl
  by_cases h2 : c = 46
  · subst h2; rfl
  by_cases h3 : c = 95
  · subst h3; rfl
  have a1 : (c == 45) = false := by simp [h1]
  have a2 : (c == 46) = false := by simp [h2]
  have a3 : (c == 95) = false := by simp [h3]
  simp only [a1, a2, a3, Bool.or_false]
  simp; omega

theorem local_part (p : Str) :
    (do if !(PyRt.truthy (← PyRt.str_isdigit (.str p))) then (do PyRt.str_lower (.str p)) else (do PyRt.int_ (.str p)) : M PyVal)
      = .ok (ofLSeg (localPart p)) := by
  simp only [str_isdigit, pure_ok, ok_bind, truthy_bool, localPart]
  by_cases h : (!p.isEmpty && p.all isDigit) = true
  · have hd : isDigitStr p = true := by simpa [isDigitStr] using h
    simp [h, int_, parseInt, hd, ofLSeg]
  · have h' : (!p.isEmpty && p.all isDigit) = false := by simpa using h
    simp [h', str_lower, ofLSeg]

/-- `_parse_local_version(local)` -/
theorem _parse_local_version_eq_model (loc : Option Str) :
    Gen.PySrc._parse_local_version (ofOptStr loc) = .ok (ofLocal (parseLocalVersion loc)) := by
  unfold Gen.PySrc._parse_local_version
  cases loc with
  | none => simp [ofOptStr, parseLocalVersion, ofLocal]
  | some s =>
    simp only [ofOptStr, isNone_str, Bool.not_false, if_true, PyX7.re_split_class, inRanges_isSep, pure_ok, ok_bind]
    rw [genexp_ok _ (fun x => match x with | .str p => ofLSeg (localPart p) | _ => .none) _ _ (by rfl)]
    · simp [parseLocalVersion, ofLocal, List.map_map, Function.comp_def]
    · intro x hx
      simp only [List.mem_map] at hx
      obtain ⟨p, _, rfl⟩ := hx
      -- x8: the closure is evaluated, not matched against a stated shape (either order of the `isdigit` test)
      simp only [str_isdigit, pure_ok, ok_bind, truthy_bool, localPart]
      by_cases h : (!p.isEmpty && p.all isDigit) = true
      · have hd : isDigitStr p = true := by simpa [isDigitStr] using h
        simp [h, int_, parseInt, hd, ofLSeg]
      · have h' : (!p.isEmpty && p.all isDigit) = false := by simpa using h
        simp [h', str_lower, ofLSeg]

/-- on the non-empty parts the version pattern captures, `localPart` is the scanner's `localSeg` -/
theorem localPart_eq_localSeg (p : Str) (h : p ≠ []) : localPart p = localSeg p := by
  cases p with
  | nil => exact absurd rfl h
  | cons c r => simp [localPart, localSeg]

end Src
