import PkgModel.Generated.PySrc
import PkgModel.Platform
import PkgProofs.Lemmas.PyFn
import PkgProofs.Props.Src.Platform
/-!
# The environment of the translated platform code (x6), in terms of the C16 model's probe records

The translated functions of `_manylinux.py`, `_musllinux.py` and the platform generators of `tags.py` read the world
outside through the environment table `PyRt.Env`.  The theorems of `Src/Plat*.lean` are stated for *every* table whose
entries answer as the model's probe record says (`LinuxEnv`, `AppleEnv`, `SystemEnv` below), not for one particular
association list; `linuxEnvOf` etc. are concrete tables showing that the hypotheses are satisfiable.
-/
namespace Src
open PyRt PyRx Py Plat Elf

/-- `_MuslVersion | None` (a named tuple travels as a plain tuple) -/
def ofMusl : Option (Nat × Nat) → PyVal
  | none => .none
  | some (a, b) => .tuple [.int a, .int b]

def ofOptBool : Option Bool → PyVal
  | none => .none
  | some b => .bool b

/-- a glibc version pair as the Python tuple -/
def ofPair (v : Int × Int) : PyVal := .tuple [.int v.1, .int v.2]

/-- what the translated code reads of an `ELFFile` -/
def ofHeader (h : Header) : PyVal :=
  .obj "ELFFile" [("capacity", .int h.capacity), ("encoding", .int h.encoding), ("machine", .int h.machine), ("flags", .int h.flags)]

def ofOptHeader : Option Header → PyVal
  | none => .none
  | some h => ofHeader h

/-- a rule table of `manylinux_compatible` as the rows of a `callable` value -/
def ofRules (rules : List ((Nat × Nat × Str) × Option Bool)) : List PyVal :=
  rules.map fun r => .tuple [.tuple [.int r.1.1, .int r.1.2.1, .str r.1.2.2], ofOptBool r.2]

/-- the value the environment holds under `import _manylinux` stands for policy `p` -/
def IsPolicy (v : PyVal) : Policy → Prop
  | .absent => v = .obj "raise" [("cls", .str (ofString "ImportError"))]
  | .func dflt rules => ∃ fs, v = .obj "module" fs ∧
      lookupField fs "manylinux_compatible" =
        some (.obj "callable" [("table", .list (ofRules rules)), ("default", ofOptBool dflt)])
  | .legacy m1 m2010 m2014 => ∃ fs, v = .obj "module" fs ∧
      lookupField fs "manylinux_compatible" = none ∧
      lookupField fs "manylinux1_compatible" = m1.map .bool ∧
      lookupField fs "manylinux2010_compatible" = m2010.map .bool ∧
      lookupField fs "manylinux2014_compatible" = m2014.map .bool

/-- the table answers the Linux probes as the record `cfg` says (`exe` is the text of `sys.executable`) -/
structure LinuxEnv (env : Env) (cfg : LCfg) (exe : Str) : Prop where
  exePath : env_get env "sys.executable" = .ok (.str exe)
  musl : env_call env "_get_musl_version" [.str exe] = .ok (ofMusl (getMuslVersion cfg))
  elf : env_call env "_parse_elf" [.str exe] = .ok (ofOptHeader (parseExe cfg))
  confstr : env_call env "_glibc_version_string_confstr" [] = .ok (ofOptStr (glibcVersionStringConfstr cfg.confstr))
  ctypes : env_call env "_glibc_version_string_ctypes" [] = .ok (ofOptStr cfg.ctypesVersion)
  policy : ∃ v, env_get env "import _manylinux" = .ok v ∧ IsPolicy v cfg.policy

/-- one row of a call table -/
def row (args : List PyVal) (r : PyVal) : PyVal := .tuple [.tuple args, r]

def policyValue : Policy → PyVal
  | .absent => .obj "raise" [("cls", .str (ofString "ImportError"))]
  | .func dflt rules => .obj "module" [("manylinux_compatible",
      .obj "callable" [("table", .list (ofRules rules)), ("default", ofOptBool dflt)])]
  | .legacy m1 m2010 m2014 => .obj "module"
      ((match m1 with | some b => [("manylinux1_compatible", PyVal.bool b)] | none => []) ++
       (match m2010 with | some b => [("manylinux2010_compatible", PyVal.bool b)] | none => []) ++
       (match m2014 with | some b => [("manylinux2014_compatible", PyVal.bool b)] | none => []))

/-- a concrete table for `cfg` (the shape `harness/srccall.py` sends) -/
def linuxEnvOf (cfg : LCfg) (exe : Str) : Env :=
  [("sys.executable", .str exe),
   ("_get_musl_version", .list [row [.str exe] (ofMusl (getMuslVersion cfg))]),
   ("_parse_elf", .list [row [.str exe] (ofOptHeader (parseExe cfg))]),
   ("_glibc_version_string_confstr", .list [row [] (ofOptStr (glibcVersionStringConfstr cfg.confstr))]),
   ("_glibc_version_string_ctypes", .list [row [] (ofOptStr cfg.ctypesVersion)]),
   ("import _manylinux", policyValue cfg.policy)]

/-- the key under which `mac_platforms` reads the stdout of its `SYSTEM_VERSION_COMPAT=0` subprocess: the source text of
the expression (so a change of the command, its environment or its flags changes the key) -/
def macCompatKey : String :=
  "subprocess.run([sys.executable, '-sS', '-c', 'import platform; print(platform.mac_ver()[0])'], check=True, env={'SYSTEM_VERSION_COMPAT': '0'}, stdout=subprocess.PIPE, text=True).stdout"

/-- the macOS / iOS probes -/
structure AppleEnv (env : Env) (verStr cpu compat0 : Str) (is32 : Bool) (iosRelease iosMultiarch : Str) : Prop where
  macVer : ∃ mid, env_call env "platform.mac_ver" [] = .ok (.tuple [.str verStr, mid, .str cpu])
  compat0 : env_get env macCompatKey = .ok (.str compat0)
  is32 : env_get env "_32_BIT_INTERPRETER" = .ok (.bool is32)
  iosVer : ∃ a c d, env_call env "platform.ios_ver" [] = .ok (.tuple [a, .str iosRelease, c, d])
  multiarch : env_get env "sys.implementation._multiarch" = .ok (.str iosMultiarch)

/-- every probe of `platform_tags()` -/
structure SystemEnv (env : Env) (p : PCfg) (exe : Str) : Prop where
  system : env_call env "platform.system" [] = .ok (.str p.system)
  getPlatform : env_call env "sysconfig.get_platform" [] = .ok (.str p.getPlatform)
  linux : LinuxEnv env p.linux exe
  apple : AppleEnv env p.macVerStr p.macCpu p.macCompat0 p.is32 p.iosRelease p.iosMultiarch

/-- a generator's result: the tags, or the exception that escapes -/
def ofPlatResult : Except String (List Str) → M PyVal
  | .ok l => .ok (.iter (l.map .str))
  | .error e => .error e

/-- an optional `(major, minor)` argument -/
def ofOptVer : Option (Nat × Nat) → PyVal
  | none => .none
  | some (a, b) => .tuple [.int a, .int b]

/-- text the run-time's `int()` and the model's `pyInt` read alike: ASCII, no sign, no underscore -/
def PlainText (s : Str) : Prop := ∀ c ∈ s, c < 128 ∧ c ≠ 43 ∧ c ≠ 45 ∧ c ≠ 95

end Src
