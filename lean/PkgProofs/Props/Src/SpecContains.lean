import PkgModel.Generated.PySrc
import PkgModel.Specifier
import PkgProofs.Props.Src.SpecEqual
import PkgProofs.Lemmas.SrcRobust
/-!
# Translated source of `Specifier.prereleases`, `.contains`, `.filter` = the model (`S.Spec.prereleases/contains/filter`)
-/
namespace Src
open PyRt Py V S

theorem contains_translated :
    (Gen.PySrc.Specifier.prereleases_supported && Gen.PySrc.Specifier.contains_supported &&
     Gen.PySrc.Specifier.filter_supported && Gen.PySrc._coerce_version_supported &&
     Gen.PySrc.Specifier.operator_supported && Gen.PySrc.Specifier.version_supported) = true := rfl

@[simp] theorem getattr_spec_spec (sp : Spec) (ov) : getattr (ofSpec sp ov) "_spec" = .ok (.tuple [.str sp.op.str, .str sp.ver]) := by rfl
@[simp] theorem getattr_spec_pre (sp : Spec) (ov) : getattr (ofSpec sp ov) "_prereleases" = .ok (ofOptBool ov) := by rfl

theorem Specifier.operator_eq_model (sp : Spec) (ov) : Gen.PySrc.Specifier.operator (ofSpec sp ov) = .ok (.str sp.op.str) := by
  simp [Gen.PySrc.Specifier.operator]
theorem Specifier.version_eq_model (sp : Spec) (ov) : Gen.PySrc.Specifier.version (ofSpec sp ov) = .ok (.str sp.ver) := by
  simp [Gen.PySrc.Specifier.version]

/-- `Specifier.prereleases`.  The proof evaluates the translated block symbolically (`src_simp`): it does not depend on how
the operator test is spelled (list / set / named constant, nested or early return), on the order of the two `.*` tests, nor
on where the `try` returns. -/
theorem Specifier.prereleases_eq_model (sp : Spec) (ov : Option Bool) :
    Gen.PySrc.Specifier.prereleases (ofSpec sp ov) = (sp.prereleases ov).map PyVal.bool := by
  unfold Gen.PySrc.Specifier.prereleases Spec.prereleases
  cases ov with
  | some b => cases b <;> simp [ofOptBool, Except.map, pure, Except.pure]
  | none =>
    obtain ⟨op, ver⟩ := sp
    have hsl : getslice (PyVal.str ver) PyVal.none (PyVal.int (-2)) = .ok (.str (ver.take (ver.length - 2))) :=
      getslice_str_neg ver 2 (by omega)
    have hdot : ofString ".*" = [46, 42] := rfl
    have hmk : ∀ t : Str, mkVersion "Version" (.str t) = (match scan t with | some v => .ok (ofVer "Version" v) | none => .error "InvalidVersion") := by
      intro t; simp only [mkVersion]; cases scan t <;> rfl
    cases op <;> cases he : endsWith ver [46, 42] <;>
      simp only [getattr_spec_pre, ofOptBool, ok_bind, isNone_none, getattr_spec_spec, unpack2, iterate_tuple, pure_ok, S.Op.str,
        str_endswith_str, hdot, he, PyRt.eq, eq_str, truthy_bool, hsl, hmk] <;>
      (first
        | (cases hsc : scan ver <;> src_simp [hsc, pure, Except.pure, Version.is_prerelease_eq_model, catches] <;> done)
        | (cases hsc : scan (List.take (ver.length - 2) ver) <;>
            src_simp [hsc, pure, Except.pure, Version.is_prerelease_eq_model, catches] <;> done))

theorem _coerce_version_eq_model (v : Ver) : Gen.PySrc._coerce_version (ofVer "Version" v) = .ok (ofVer "Version" v) := by
  have : isinstance (ofVer "Version" v) ["Version", "_TrimmedRelease"] = true := by simp [isinstance, className_ofVer]
  simp [Gen.PySrc._coerce_version, this]

/-- `_coerce_version(s)` on a string is `Version(s)` -/
theorem _coerce_version_str (s : Str) : Gen.PySrc._coerce_version (.str s) = (S.version s).map (ofVer "Version") := by
  have : isinstance (.str s) ["Version", "_TrimmedRelease"] = false := by simp [isinstance]
  simp only [Gen.PySrc._coerce_version, this, truthy_bool, Bool.not_false, if_true, mkVersion_eq_model]
  cases S.version s <;> rfl

/-- `self._get_operator(op)(prospective, spec)`: the method named by the operator table -/
theorem get_operator_call_eq_model (self : PyVal) (op : S.Op) (p : Ver) (hp : WF p) (ver : Str) :
    Gen.PySrc.Specifier._get_operator__call self (.str op.str) (ofVer "Version" p) (.str ver) =
      (Spec.compare ⟨op, ver⟩ p).map PyVal.bool := by
  unfold Gen.PySrc.Specifier._get_operator__call Spec.compare
  cases op <;> simp only [S.Op.str, eq_str]
  · exact Specifier._compare_compatible_eq_model self p hp ver
  · exact Specifier._compare_equal_eq_model self p hp ver
  · exact Specifier._compare_not_equal_eq_model self p hp ver
  · exact Specifier._compare_less_than_equal_eq_model self p hp ver
  · exact Specifier._compare_greater_than_equal_eq_model self p hp ver
  · exact Specifier._compare_less_than_eq_model self p ver
  · exact Specifier._compare_greater_than_eq_model self p hp ver
  · exact Specifier._compare_arbitrary_eq_model self p hp ver

/-- `Specifier.contains(item, prereleases)` for a `Version` item -/
theorem Specifier.contains_eq_model (sp : Spec) (ov : Option Bool) (c : Ver) (hc : WF c) (pre : Option Bool) :
    Gen.PySrc.Specifier.contains (ofSpec sp ov) (ofVer "Version" c) (ofOptBool pre) =
      (sp.contains ov c pre).map PyVal.bool := by
  unfold Gen.PySrc.Specifier.contains Spec.contains
  have tail : ∀ b : Bool,
      (do let normalized_item ← Gen.PySrc._coerce_version (ofVer "Version" c)
          if truthy (← (do let __b1 ← Gen.PySrc.Version.is_prerelease normalized_item
                           if truthy __b1 = true then (do pure (PyVal.bool (!(truthy (PyVal.bool b))))) else pure __b1)) = true
          then pure (PyVal.bool false)
          else do
            let __op3 ← Gen.PySrc.Specifier.operator (ofSpec sp ov)
            let v ← Gen.PySrc.Specifier.version (ofSpec sp ov)
            Gen.PySrc.Specifier._get_operator__call (ofSpec sp ov) __op3 normalized_item v) =
      (if c.isPre && !b then pure false else sp.compare c : R Bool).map PyVal.bool := by
    intro b
    obtain ⟨op, ver⟩ := sp
    simp only [_coerce_version_eq_model, ok_bind, Version.is_prerelease_eq_model, truthy_bool, Specifier.operator_eq_model,
      Specifier.version_eq_model, get_operator_call_eq_model _ op c hc ver, pure_ok]
    cases c.isPre <;> cases b <;> simp [Except.map]
  cases pre with
  | some b => simpa [ofOptBool] using tail b
  | none =>
    simp only [ofOptBool, isNone_none, if_true, Specifier.prereleases_eq_model]
    cases hpr : sp.prereleases ov with
    | error e => rfl
    | ok b => simpa [Except.map] using tail b

/-! ### `Specifier.filter` -/

abbrev ofV (v : Ver) : PyVal := ofVer "Version" v

abbrev FState := PyVal × List PyVal × PyVal × PyVal

/-- what one iteration of the loop of `filter` does, in model terms; state = `enc (parsed_version, __yield, yielded,
found_prereleases)` — `enc` says in which order the translated loop carries the four locals -/
def StepSpec {σ : Type} (enc : FState → σ) (sp : Spec) (ov pre' : Option Bool) (body : PyVal → σ → M (ForInStep σ)) : Prop :=
  ∀ v : Ver, WF v → ∀ (pv0 : PyVal) (ys fs : List Ver),
    body (ofV v) (enc (pv0, ys.map ofV, PyVal.bool (!ys.isEmpty), PyVal.list (fs.map ofV))) =
      (do let c ← sp.contains ov v (some (pre'.getD true))
          if c then do
            let deferred ← (if v.isPre then (if pre' == some true then pure false else do
                  let own ← sp.prereleases ov
                  pure (!own)) else pure false : R Bool)
            if deferred then pure (ForInStep.yield (enc (ofV v, ys.map ofV, PyVal.bool (!ys.isEmpty), PyVal.list ((fs ++ [v]).map ofV))))
            else pure (ForInStep.yield (enc (ofV v, (ys ++ [v]).map ofV, PyVal.bool (!(ys ++ [v]).isEmpty), PyVal.list (fs.map ofV))))
          else pure (ForInStep.yield (enc (ofV v, ys.map ofV, PyVal.bool (!ys.isEmpty), PyVal.list (fs.map ofV)))))

theorem filter_loop {σ : Type} (enc : FState → σ) (sp : Spec) (ov pre' : Option Bool) (body : PyVal → σ → M (ForInStep σ))
    (hstep : StepSpec enc sp ov pre' body) (items : List Ver) (hw : ∀ v ∈ items, WF v) :
    ∀ (pv0 : PyVal) (ys fs : List Ver),
    (match sp.filterLoop ov pre' (items.map fun v => (v, v)) ys fs with
     | .ok (y', f') => ∃ pv',
        forIn (items.map ofV) (enc (pv0, ys.map ofV, PyVal.bool (!ys.isEmpty), PyVal.list (fs.map ofV))) body
          = .ok (enc (pv', y'.map ofV, PyVal.bool (!y'.isEmpty), PyVal.list (f'.map ofV)))
     | .error e =>
        forIn (items.map ofV) (enc (pv0, ys.map ofV, PyVal.bool (!ys.isEmpty), PyVal.list (fs.map ofV))) body
          = .error e) := by
  induction items with
  | nil => intro pv0 ys fs; simp only [Spec.filterLoop, List.map_nil, List.forIn_nil]; exact ⟨pv0, rfl⟩
  | cons v rest ih =>
    intro pv0 ys fs
    have hv : WF v := hw v (List.mem_cons_self ..)
    have hrest : ∀ w ∈ rest, WF w := fun w hm => hw w (List.mem_cons_of_mem _ hm)
    simp only [List.map_cons, List.forIn_cons, Spec.filterLoop]
    rw [hstep v hv pv0 ys fs]
    cases hcon : sp.contains ov v (some (pre'.getD true)) with
    | error e => simp [bind, Except.bind]
    | ok c =>
      cases c with
      | false =>
        simp only [ok_bind, Bool.false_eq_true, if_false, pure_bind]
        exact ih hrest (ofV v) ys fs
      | true =>
        simp only [ok_bind, if_true]
        cases hp : v.isPre with
        | false =>
          simp only [Bool.false_eq_true, if_false, pure_bind]
          exact ih hrest (ofV v) (ys ++ [v]) fs
        | true =>
          simp only [if_true]
          by_cases hpt : pre' = some true
          · subst hpt
            simp only [beq_self_eq_true, if_true, pure_bind, Bool.false_eq_true, if_false]
            exact ih hrest (ofV v) (ys ++ [v]) fs
          · have hb : (pre' == some true) = false := by simpa using hpt
            simp only [hb, Bool.false_eq_true, if_false]
            cases ho : sp.prereleases ov with
            | error e => simp [bind, Except.bind]
            | ok own =>
              cases own with
              | true =>
                simp only [ok_bind, pure_bind, Bool.not_true, Bool.false_eq_true, if_false]
                exact ih hrest (ofV v) (ys ++ [v]) fs
              | false =>
                simp only [ok_bind, pure_bind, Bool.not_false, if_true]
                exact ih hrest (ofV v) ys (fs ++ [v])

/-- `prereleases if prereleases is not None else self._prereleases`, as the model resolves it -/
def effPre (ov pre : Option Bool) : Option Bool :=
  match pre with
  | some b => some b
  | none => ov

theorem pre_default_jp {α} (sp : Spec) (ov pre : Option Bool) (jp : PyVal → M α) :
    (if isNone (ofOptBool pre) = true then do
        let p ← getattr (ofSpec sp ov) "_prereleases"
        jp p
      else jp (ofOptBool pre)) = jp (ofOptBool (effPre ov pre)) := by
  cases pre <;> simp [ofOptBool, effPre]

theorem kw_value (p : Option Bool) :
    (if (!isNone (ofOptBool p)) = true then pure (ofOptBool p) else pure (PyVal.bool true) : M PyVal) =
      .ok (PyVal.bool (p.getD true)) := by
  cases p <;> rfl

/-- the loop of `filter` followed by whatever the source does with its final state (`K`): nothing here depends on how the
body or the tail are spelled, only on what they compute (`hstep`, `hK`) -/
theorem filter_aux {σ : Type} (enc : FState → σ) (sp : Spec) (ov pre' : Option Bool) (body : PyVal → σ → M (ForInStep σ)) (K : σ → M PyVal)
    (hstep : StepSpec enc sp ov pre' body)
    (hK : ∀ (pv : PyVal) (ys fs : List Ver), K (enc (pv, ys.map ofV, PyVal.bool (!ys.isEmpty), PyVal.list (fs.map ofV))) =
      .ok (PyVal.iter ((if (ys.isEmpty && !fs.isEmpty) = true then fs else ys).map ofV)))
    (items : List Ver) (hw : ∀ v ∈ items, WF v) :
    (forIn (items.map ofV) (enc (PyVal.unbound, ([] : List PyVal), PyVal.bool false, PyVal.list [])) body >>= K) =
      Except.map (fun l => PyVal.iter (List.map ofV l)) (do
        let __x ← sp.filterLoop ov pre' (items.map fun v => (v, v)) [] []
        if (__x.fst.isEmpty && !__x.snd.isEmpty) = true then pure __x.snd else pure __x.fst) := by
  have hl := filter_loop enc sp ov pre' body hstep items hw PyVal.unbound [] []
  cases hf : sp.filterLoop ov pre' (items.map fun v => (v, v)) [] [] with
  | error e =>
    rw [hf] at hl
    simp only [List.map_nil, List.isEmpty_nil, Bool.not_true] at hl
    rw [hl]; rfl
  | ok r =>
    obtain ⟨y', f'⟩ := r
    rw [hf] at hl
    obtain ⟨pv', hl⟩ := hl
    simp only [List.map_nil, List.isEmpty_nil, Bool.not_true] at hl
    rw [hl]
    simp only [ok_bind, hK, Except.map]
    cases hc : (y'.isEmpty && !f'.isEmpty) <;> simp [pure, Except.pure]

/-- appending the items of a list one by one (`for v in xs: yield v`) -/
theorem forIn_yield_each {α} (f : α → PyVal) (xs : List α) (acc : List PyVal) :
    forIn xs acc (fun a s => (Except.ok (ForInStep.yield (s ++ [f a])) : M (ForInStep (List PyVal)))) = .ok (acc ++ xs.map f) := by
  induction xs generalizing acc with
  | nil => simp
  | cons x xs ih => simp only [List.forIn_cons, ok_bind, ih, List.map_cons, List.append_assoc, List.cons_append, List.nil_append]

/-- `Specifier.filter(iterable, prereleases)` for an iterable of `Version` objects: the versions yielded, in order.
The proof fixes the (finitely many) values of the two overrides, evaluates the translated block symbolically and hands the
loop to `filter_aux`; it names neither the loop body nor the code after the loop. -/
theorem Specifier.filter_eq_model (sp : Spec) (ov pre : Option Bool) (items : List Ver) (hw : ∀ v ∈ items, WF v) :
    Gen.PySrc.Specifier.filter (ofSpec sp ov) (.list (items.map ofV)) (ofOptBool pre) =
      (sp.filter ov pre (items.map fun v => (v, v))).map (fun l => PyVal.iter (l.map ofV)) := by
  unfold Gen.PySrc.Specifier.filter Spec.filter
  rcases pre with _ | _ | _ <;> rcases ov with _ | _ | _ <;>
    simp only [ofOptBool, isNone_none, isNone_bool, if_true, if_false, Bool.not_true, Bool.not_false, Bool.false_eq_true,
      getattr_spec_pre, ok_bind, pure_ok, iterate_list, truthy_bool, truthy_none] <;>
    (first
      | refine filter_aux (fun t => t) sp _ _ _ _ ?_ ?_ items hw
      | refine filter_aux (fun t : FState => (t.1, t.2.1, t.2.2.2, t.2.2.1)) sp _ _ _ _ ?_ ?_ items hw
     · -- one iteration
       intro v hv pv0 ys fs
       have hc : ∀ (ov : Option Bool) (b : Bool), Gen.PySrc.Specifier.contains (ofSpec sp ov) (ofVer "Version" v) (.bool b) =
           (sp.contains ov v (some b)).map PyVal.bool :=
         fun ov b => by simpa [ofOptBool] using Specifier.contains_eq_model sp ov v hv (some b)
       simp only [ofV, _coerce_version_eq_model, ok_bind, hc, Version.is_prerelease_eq_model, truthy_bool, truthy_none,
         Specifier.prereleases_eq_model, Option.getD, pure_ok, if_true, if_false, Bool.false_eq_true]
       rcases hcon : sp.contains _ v _ with _ | _ | _ <;> cases hp : v.isPre <;> rcases ho : sp.prereleases _ with _ | _ | _ <;>
         src_simp [hcon, hp, ho, bind, Except.bind, pure, Except.pure]
     · -- after the loop
       intro pv ys fs
       rcases ys with _ | ⟨y, ys⟩ <;> rcases fs with _ | ⟨f, fs⟩ <;>
         src_simp [forIn_yield_each, pure, Except.pure])

end Src
