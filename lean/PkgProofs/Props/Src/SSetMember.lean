import PkgModel.Generated.PySrc
import PkgModel.SpecifierSet
import PkgModel.PySet
import PkgProofs.Lemmas.SpecAlike
import PkgProofs.Props.Src.SpecContains
/-!
# Translated source of `Specifier.__str__`, `._canonical_spec`, `.__hash__`, `.__eq__` = the model
(`S.Spec.str`, `S.Spec.canonical`, `SSet.key`), and how `SSet` values appear as Python objects
-/
namespace Src
open PyRt Py V S
open SSet (Member SpecSet CKey key canonical_isOk)

/-- a member of a `SpecifierSet`: a `Specifier` object -/
def ofMember (m : Member) : PyVal := ofSpec m.1 m.2
/-- the frozenset `_specs` (members in first-insertion order) -/
def ofSet (l : List Member) : PyVal := PyRx.mkSet "frozenset" (l.map ofMember)
/-- a `SpecifierSet` object -/
def ofSSet (T : SpecSet) : PyVal := .obj "SpecifierSet" [("_specs", ofSet T.specs), ("_prereleases", ofOptBool T.pre)]
/-- `_canonical_spec` as a Python tuple -/
def ofCKey (k : CKey) : PyVal := .tuple [.str k.1.str, .str k.2]

/-- the iteration order that the environment `env` prescribes for the members of `T` is `it` (`src.call` makes the real
frozenset iterate in the order it sends; `Src.ordered_of_perm`: every permutation of the members is prescribed by some
environment) -/
def Ordered (env : Env) (T : SpecSet) (it : List Member) : Prop :=
  PySet.order env (T.specs.map ofMember) = it.map ofMember

theorem member_translated :
    (Gen.PySrc.Specifier.__str___supported && Gen.PySrc.Specifier._canonical_spec_supported &&
     Gen.PySrc.Specifier.__hash___supported && Gen.PySrc.Specifier.__eq___supported) = true := rfl

@[simp] theorem getattr_sset_specs (T : SpecSet) : getattr (ofSSet T) "_specs" = .ok (ofSet T.specs) := by rfl
@[simp] theorem getattr_sset_pre (T : SpecSet) : getattr (ofSSet T) "_prereleases" = .ok (ofOptBool T.pre) := by rfl
@[simp] theorem setItems_ofSet (l : List Member) : PyRx.setItems (ofSet l) = some (l.map ofMember) := by rfl
@[simp] theorem className_ofMember (m : Member) : className (ofMember m) = "Specifier" := by rfl
@[simp] theorem className_ofSSet (T : SpecSet) : className (ofSSet T) = "SpecifierSet" := by rfl
@[simp] theorem className_ofSet (l : List Member) : className (ofSet l) = "frozenset" := by rfl

theorem Op.str_inj {a b : S.Op} (h : a.str = b.str) : a = b := by
  cases a <;> cases b <;> first | rfl | (exfalso; revert h; decide)

theorem Op.str_beq (a b : S.Op) : (a.str == b.str) = (a == b) := by
  cases a <;> cases b <;> decide

/-- `Specifier.__str__` -/
theorem Specifier.__str___eq_model (sp : Spec) (ov : Option Bool) :
    Gen.PySrc.Specifier.__str__ (ofSpec sp ov) = .ok (.str sp.str) := by
  simp [Gen.PySrc.Specifier.__str__, PySet.format_star, PySet.formatStar, Spec.str]

/-- `Specifier._canonical_spec` -/
theorem Specifier._canonical_spec_eq_model (sp : Spec) (ov : Option Bool) :
    Gen.PySrc.Specifier._canonical_spec (ofSpec sp ov) = sp.canonical.map ofCKey := by
  unfold Gen.PySrc.Specifier._canonical_spec Spec.canonical
  obtain ⟨op, ver⟩ := sp
  have hne : ∀ o : S.Op, (!PyVal.eq (PyVal.str o.str) (PyVal.str (ofString "~="))) = (o != .compatible) := by
    intro o; cases o <;> rfl
  have hcan : ∀ strip, (do
        let v ← Gen.PySrc.canonicalize_version__str (PyVal.str ver) (PyVal.bool strip)
        Except.ok (PyVal.tuple [PyVal.str op.str, v]) : M PyVal) =
      Except.map ofCKey (match canonicalizeVersion ver strip with
        | some c => (pure (op, c) : S.R (S.Op × Str))
        | none => Except.error "InvalidVersion") := by
    intro strip
    rw [canonicalize_version__str_eq_model]
    cases canonicalizeVersion ver strip <;> rfl
  simp only [getattr_spec_spec, PyRt.ok_bind, getitem_tuple_zero, getitem_tuple_one, className_str, PyRt.ne, hne]
  cases op
  case arbitrary => rfl
  all_goals exact hcan _

/-- `Specifier.__hash__`: the symbolic hash of `_canonical_spec` -/
theorem Specifier.__hash___eq_model (sp : Spec) (ov : Option Bool) :
    Gen.PySrc.Specifier.__hash__ (ofSpec sp ov) =
      sp.canonical.map (fun k => .tuple [.str (ofString "__hash__"), ofCKey k]) := by
  simp only [Gen.PySrc.Specifier.__hash__, Specifier._canonical_spec_eq_model]
  cases sp.canonical <;> rfl

theorem canonical_ok_key (sp : Spec) : sp.canonical = .ok (key sp) := by
  have h := canonical_isOk sp
  unfold key
  cases hc : sp.canonical with
  | ok k => rfl
  | error e => rw [hc] at h; cases h

theorem ofCKey_eq (a b : CKey) : PyVal.eq (ofCKey a) (ofCKey b) = (a == b) := by
  obtain ⟨a1, a2⟩ := a
  obtain ⟨b1, b2⟩ := b
  simp only [ofCKey, PyVal.eq, eqList, eq_str, Bool.and_true, Op.str_beq]
  rfl

@[simp] theorem className_ofSpec (sp : Spec) (ov : Option Bool) : className (ofSpec sp ov) = "Specifier" := by rfl

/-- `Specifier.__eq__` on two `Specifier` objects: equality of the keys -/
theorem Specifier.__eq___eq_model (a b : Spec) (oa ob : Option Bool) :
    Gen.PySrc.Specifier.__eq__ (ofSpec a oa) (ofSpec b ob) = .ok (.bool (key a == key b)) := by
  simp [Gen.PySrc.Specifier.__eq__, isinstance, Specifier._canonical_spec_eq_model, canonical_ok_key,
    Except.map, PyRt.eq, ofCKey_eq]

/-- `Specifier.__eq__` with a string on the right: the string is parsed first; `NotImplemented` when it is no specifier -/
theorem Specifier.__eq___str (a : Spec) (oa : Option Bool) (t : Str) :
    Gen.PySrc.Specifier.__eq__ (ofSpec a oa) (.str t) =
      .ok (match parseSpec t with | some b => .bool (key a == key b) | none => .notImpl) := by
  unfold Gen.PySrc.Specifier.__eq__
  cases hp : parseSpec t with
  | none => simp [isinstance, PySet.mkSpecifier, hp, catches]; rfl
  | some b =>
    have hb : (PyVal.obj "Specifier" [("_spec", PyVal.tuple [PyVal.str b.op.str, PyVal.str b.ver]), ("_prereleases", PyVal.none)])
        = ofSpec b none := rfl
    simp only [isinstance, className_str, PySet.mkSpecifier, hp, hb, str_str, PyRt.ok_bind, PyRt.pure_ok,
      Specifier._canonical_spec_eq_model, canonical_ok_key, Except.map, truthy_bool]
    show (do
      let k ← Gen.PySrc.Specifier._canonical_spec (ofSpec b none)
      Except.ok (PyRt.eq (ofCKey (key a)) k) : M PyVal) = _
    simp [Specifier._canonical_spec_eq_model, canonical_ok_key, Except.map, PyRt.eq, ofCKey_eq]

/-- the equality function sets of `Specifier`s use, on members -/
theorem eqf_member (a b : Member) :
    (do pure (PyRt.eqResult false (← Gen.PySrc.Specifier.__eq__ (ofMember a) (ofMember b))) : M PyVal) =
      .ok (.bool (key a.1 == key b.1)) := by
  simp [ofMember, Specifier.__eq___eq_model, eqResult]

/-- hashing a member never raises -/
theorem hashf_member (a : Member) :
    Gen.PySrc.Specifier.__hash__ (ofMember a) = .ok (.tuple [.str (ofString "__hash__"), ofCKey (key a.1)]) := by
  rw [ofMember, Specifier.__hash___eq_model, canonical_ok_key]
  rfl

end Src
