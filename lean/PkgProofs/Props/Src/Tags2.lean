import PkgModel.Generated.PySrc
import PkgModel.Tags
import PkgProofs.Lemmas.PyFn
import PkgProofs.Props.Src.Tags
/-!
# Translated source of the rest of `packaging.tags` = the model (`PkgModel/Tags.lean`)

`_normalize_string`, `interpreter_name`, `interpreter_version`, `_generic_abi`, `generic_tags`, `sys_tags`.
Interpreter probes come from the environment table `Src.envOfCfg cfg` (now also `sys.implementation.name` and the
configuration variables `py_version_nodot`, `EXT_SUFFIX`); `INTERPRETER_SHORT_NAMES` is inlined by the translator
from the module's current dict and is the regenerated `Gen.TagTables.interpreterShortNames`.
-/
namespace Src
open PyRt PyRx Py Tags

theorem _normalize_string_translated : Gen.PySrc._normalize_string_supported = true := rfl
theorem interpreter_name_translated : Gen.PySrc.interpreter_name_supported = true := rfl
theorem interpreter_version_translated : Gen.PySrc.interpreter_version_supported = true := rfl
theorem _generic_abi_translated : Gen.PySrc._generic_abi_supported = true := rfl
theorem generic_tags_translated : Gen.PySrc.generic_tags_supported = true := rfl
theorem sys_tags_translated : Gen.PySrc.sys_tags_supported = true := rfl

/-! ### `_normalize_string` -/

theorem str_replace_char (s : Str) (c d : Nat) :
    str_replace (.str s) (.str [c]) (.str [d]) = .ok (.str (s.map fun x => if x == c then d else x)) := by
  simp only [str_replace, pure_ok]
  congr 2
  induction s with
  | nil => rfl
  | cons x xs ih => simp only [List.flatMap_cons, List.map_cons, ih]; split <;> rfl

theorem _normalize_string_eq_model (s : Str) :
    Gen.PySrc._normalize_string (.str s) = .ok (.str (normalizeString s)) := by
  unfold Gen.PySrc._normalize_string
  simp only [show ofString "." = [46] from rfl, show ofString "_" = [95] from rfl, show ofString "-" = [45] from rfl,
    show ofString " " = [32] from rfl, str_replace_char, ok_bind, pure_ok, List.map_map, normalizeString]
  congr 2
  apply List.map_congr_left
  intro c _
  simp only [Function.comp]
  by_cases h1 : c = 46
  · subst h1; rfl
  · by_cases h2 : c = 45
    · subst h2; rfl
    · by_cases h3 : c = 32
      · subst h3; rfl
      · simp [h1, h2, h3]

/-! ### `interpreter_name` -/

theorem const_dict_get_strs (kvs : List (Str × Str)) (n : Str) :
    const_dict_get (kvs.map fun kv => (PyVal.str kv.1, PyVal.str kv.2)) (.str n) .none =
      .ok (match kvs.lookup n with | some v => .str v | none => .none) := by
  induction kvs with
  | nil => rfl
  | cons kv rest ih =>
    obtain ⟨k, v⟩ := kv
    simp only [const_dict_get, List.map_cons, List.find?_cons, eq_str, List.lookup_cons] at ih ⊢
    by_cases h : k = n
    · subst h; simp
    · have h1 : (k == n) = false := by simpa using h
      have h2 : (n == k) = false := by simpa using (fun e => h e.symm)
      simp only [h1, h2]
      exact ih

theorem interpreter_name_eq_model (cfg : Cfg) :
    Gen.PySrc.interpreter_name (envOfCfg cfg) = .ok (.str (interpreterName cfg)) := by
  unfold Gen.PySrc.interpreter_name
  have he : env_get (envOfCfg cfg) "sys.implementation.name" = .ok (.str cfg.implName) := by rfl
  have hd := const_dict_get_strs Gen.TagTables.interpreterShortNames cfg.implName
  simp only [he, ok_bind]
  erw [hd]
  simp only [ok_bind, interpreterName]
  cases Gen.TagTables.interpreterShortNames.lookup cfg.implName with
  | none => simp [or_]
  | some v => cases v <;> simp [or_]

/-! ### `interpreter_version` -/

theorem str_ofCV (c : CV) (h : c.truthy = true) : str_ (ofCV c) = .ok (.str c.toStr) := by
  cases c with
  | none => simp [CV.truthy] at h
  | int n => simp [ofCV, CV.toStr]
  | str s => simp [ofCV, CV.toStr]

theorem interpreter_version_eq_model (cfg : Cfg) (warn : PyVal) (hs : cfg.sysVersion.length ≤ 2) :
    Gen.PySrc.interpreter_version (envOfCfg cfg) warn = .ok (.str (interpreterVersion cfg)) := by
  unfold Gen.PySrc.interpreter_version
  have g := _get_config_var_eq_model cfg .pyVersionNodot warn
  simp only [CfgVar.name, CfgVar.get] at g
  have he : env_get (envOfCfg cfg) "sys.version_info" = .ok (ofVersion cfg.sysVersion) := by rfl
  have hsl : getslice (ofVersion cfg.sysVersion) PyVal.none (PyVal.int 2) = .ok (ofVersion (cfg.sysVersion.take 2)) := by
    rw [ofVersion, show (PyVal.int 2) = PyVal.int ((2 : Nat) : Int) from rfl, getslice_tuple_to, ofVersion, List.map_take]
  simp only [g, ok_bind, truthy_ofCV, interpreterVersion]
  cases h : cfg.pyVersionNodot.truthy
  · simp [he, hsl, _version_nodot_eq_model]
  · simp [str_ofCV _ h]

/-! ### `_generic_abi` -/

/-- an escaping exception class, or the list -/
def ofStrsResult : Except String (List Str) → M PyVal
  | .ok l => .ok (ofStrs l)
  | .error e => .error e

theorem str_startswith_str (s p : Str) : str_startswith (.str s) (.str p) = .ok (.bool (startsWith s p)) := by rfl

theorem cmp_lt_nat (a b : Nat) : cmp .lt (.int (a : Int)) (.int (b : Int)) = .ok (decide (a < b)) := by
  simp [cmp, asInt, Cmp.onInt]

theorem _generic_abi_eq_model (cfg : Cfg) (hs : cfg.sysVersion.length ≤ 2) :
    Gen.PySrc._generic_abi (envOfCfg cfg) = ofStrsResult (genericAbi cfg) := by
  unfold Gen.PySrc._generic_abi genericAbi
  have g := _get_config_var_eq_model cfg .extSuffix (.bool true)
  simp only [CfgVar.name, CfgVar.get] at g
  simp only [g, ok_bind]
  cases hx : cfg.extSuffix with
  | none => simp [ofCV, isinstance, className, ofStrsResult]
  | int n => simp [ofCV, isinstance, className, ofStrsResult]
  | str s =>
    cases s with
    | nil => simp [ofCV, isinstance, className, ofStrsResult, getitem, asInt, normIndex, indexError]
    | cons c cs =>
      have hi : isinstance (ofCV (CV.str (c :: cs))) ["str"] = true := by simp [ofCV, isinstance]
      have hg0 : getitem (ofCV (CV.str (c :: cs))) (PyVal.int 0) = .ok (.str [c]) := by
        simp [ofCV, getitem, asInt, normIndex]
      simp only [hi, truthy_bool, Bool.not_true, Bool.false_eq_true, if_false, hg0, ok_bind, pure_ok, PyRt.ne, eq_str,
        show ofString "." = [46] from rfl]
      by_cases hc : c = 46
      · subst hc
        simp only [beq_self_eq_true, Bool.not_true, Bool.false_eq_true, if_false, bne_self_eq_false, ofCV, str_split_single,
          ok_bind, len_list, List.length_map]
        rw [show (PyVal.int 3) = PyVal.int ((3 : Nat) : Int) from rfl, cmp_lt_nat]
        simp only [ok_bind]
        by_cases hl : (splitOn 46 (46 :: cs)).length < 3
        · have he : env_get (envOfCfg cfg) "sys.version_info" = .ok (ofVersion cfg.sysVersion) := by rfl
          have hsl : getslice (ofVersion cfg.sysVersion) PyVal.none (PyVal.int 2) = .ok (ofVersion cfg.sysVersion) := by
            rw [ofVersion, show (PyVal.int 2) = PyVal.int ((2 : Nat) : Int) from rfl, getslice_tuple_to,
              List.take_of_length_le (by simpa using hs)]
          simp [hl, he, hsl, _cpython_abis_eq_model, ofStrsResult]
        · have h1 : 1 < (splitOn 46 (46 :: cs)).length := by omega
          have hg1 : getitem (PyVal.list (List.map PyVal.str (splitOn 46 (46 :: cs)))) (PyVal.int 1) =
              .ok (.str ((splitOn 46 (46 :: cs)).getD 1 [])) := getitem_strs_nat (splitOn 46 (46 :: cs)) 1 h1
          simp only [hl, decide_false, Bool.false_eq_true, if_false, hg1, ok_bind, str_startswith_str, truthy_bool,
            show ofString "cpython" = sCpython from rfl, show ofString "cp" = sCp from rfl,
            show ofString "pypy" = sPypy from rfl, show ofString "graalpy" = sGraalpy from rfl,
            show ofString "-" = [45] from rfl, str_split_single]
          generalize (splitOn 46 (46 :: cs)).getD 1 [] = soabi
          have hne := PyRt.splitOn_ne_nil 45 soabi
          have hsl2 := getslice_list_to ((splitOn 45 soabi).map PyVal.str) 2
          have hsl3 := getslice_list_to ((splitOn 45 soabi).map PyVal.str) 3
          simp only [show (PyVal.int ((2 : Nat) : Int)) = PyVal.int 2 from rfl] at hsl2
          simp only [hsl2, hsl3, ok_bind, ← List.map_take, str_join_list, _normalize_string_eq_model, truthy_str]
          by_cases a1 : startsWith soabi sCpython = true
          · simp only [a1, if_true]
            rcases hd : splitOn 45 soabi with _ | ⟨d0, _ | ⟨d1, dr⟩⟩
            · exact absurd hd hne
            · simp [ofStrsResult, getitem, asInt, normIndex, indexError]
            · simp [ofStrsResult, PyRt.add, _normalize_string_eq_model, ofStrs]
          · by_cases a2 : startsWith soabi sCp = true
            · simp only [a1, a2, if_true, Bool.false_eq_true, if_false]
              rcases hd : splitOn 45 soabi with _ | ⟨d0, dr⟩
              · exact absurd hd hne
              · simp [ofStrsResult, _normalize_string_eq_model, ofStrs]
            · by_cases a3 : startsWith soabi sPypy = true
              · simp [a1, a2, a3, ofStrsResult, ofStrs]
              · by_cases a4 : startsWith soabi sGraalpy = true
                · simp [a1, a2, a3, a4, ofStrsResult, ofStrs]
                · cases soabi <;> simp [a1, a2, a3, a4, ofStrsResult, ofStrs, _normalize_string_eq_model]
      · have : (c == 46) = false := by simpa using hc
        simp [this, ofStrsResult, hc]

/-! ### `generic_tags` -/

def ofTagsResult : Except String (List Tags.Tag) → M PyVal
  | .ok l => .ok (.iter (l.map ofTag))
  | .error e => .error e

theorem contains_strs (l : List Str) (x : Str) : contains (.list (l.map .str)) (.str x) = .ok (l.contains x) := by
  simp only [contains, pure_ok]
  congr 1
  induction l with
  | nil => rfl
  | cons a as ih =>
    simp only [List.map_cons, List.any_cons, eq_str, List.contains_cons, ih]

/-- the part of `generic_tags` after the interpreter string `I` is known (shared by the three shapes of `interpreter`) -/
theorem generic_tags_loops (cfg : Cfg) (plats : Option (List Str)) (I : Str) (A : List Str) :
    (do
      let __do_lift ← iterate (PyVal.list (A.map .str))
      let __s ← forIn __do_lift ([] : List PyVal) fun abi __s => do
          let __do_lift ← iterate (ofStrs (platformsOrDefault cfg plats))
          let __s ← forIn __do_lift __s fun platform_ __s => do
              let __do_lift ← Gen.PySrc.Tag.__init__ (PyVal.obj "Tag" []) (PyVal.str I) abi platform_
              pure (ForInStep.yield (__s ++ [__do_lift]))
          pure (ForInStep.yield __s)
      pure (PyVal.iter __s)) =
    .ok (.iter ((A.flatMap fun a => (platformsOrDefault cfg plats).map fun p => mkTag I a p).map ofTag)) := by
  simp only [iterate_list, ok_bind, ofStrs]
  rw [forIn_append_ok _ _ _ (fun x => match x with
    | .str ab => (platformsOrDefault cfg plats).map (fun p => ofTag (mkTag I ab p)) | _ => [])]
  · simp [List.flatMap_map, List.map_flatMap, List.map_map, Function.comp_def]
  · intro x hx s
    simp only [List.mem_map] at hx
    obtain ⟨ab, _, rfl⟩ := hx
    rw [tags_over_platforms _ (fun p => mkTag I ab p) _ s (fun p => Tag.__init___eq_model I ab p)]; rfl

set_option hygiene false in
/-- the rest of the proof of `generic_tags_eq_model` once the interpreter string is `I` on both sides -/
macro "generic_tags_tail" : tactic => `(tactic| (
  cases abis with
  | none =>
    simp only [show ofOptStrs (none : Option (List Str)) = PyVal.none from rfl, isNone_none, if_true,
      _generic_abi_eq_model cfg hs]
    cases hg : genericAbi cfg with
    | error e => rfl
    | ok A =>
      simp only [ofStrsResult, ok_bind, platforms_default_jp cfg plats, contains_strs, ofStrs,
        show ofString "none" = sNone from rfl, list_append_list]
      cases hc : A.contains sNone
      · have := generic_tags_loops cfg plats I (A ++ [sNone])
        simp only [List.map_append, List.map_cons, List.map_nil, ofStrs] at this
        simp only [Bool.not_false, Bool.not_true, Bool.false_eq_true, if_true, if_false, ok_bind, ofTagsResult, hc,
          pure_ok, List.map_append, List.map_cons, List.map_nil, ofStrs]; exact this
      · have := generic_tags_loops cfg plats I A
        simp only [ofStrs] at this
        simp only [Bool.not_false, Bool.not_true, Bool.false_eq_true, if_true, if_false, ok_bind, ofTagsResult, hc,
          pure_ok, ofStrs]; exact this
  | some A =>
    simp only [show ofOptStrs (some A) = PyVal.list (A.map .str) from rfl, isNone_list, Bool.false_eq_true, if_false,
      list_list, ok_bind, platforms_default_jp cfg plats, contains_strs, show ofString "none" = sNone from rfl,
      list_append_list]
    cases hc : A.contains sNone
    · have := generic_tags_loops cfg plats I (A ++ [sNone])
      simp only [List.map_append, List.map_cons, List.map_nil, ofStrs] at this
      simp only [Bool.not_false, Bool.not_true, Bool.false_eq_true, if_true, if_false, ok_bind, ofTagsResult, hc,
        pure_ok, List.map_append, List.map_cons, List.map_nil, ofStrs]; exact this
    · have := generic_tags_loops cfg plats I A
      simp only [ofStrs] at this
      simp only [Bool.not_false, Bool.not_true, Bool.false_eq_true, if_true, if_false, ok_bind, ofTagsResult, hc,
        pure_ok, ofStrs]; exact this))

theorem generic_tags_eq_model (cfg : Cfg) (interp : Option Str) (abis plats : Option (List Str)) (warn : PyVal)
    (hs : cfg.sysVersion.length ≤ 2) :
    Gen.PySrc.generic_tags (envOfCfg cfg) (ofOptStr interp) (ofOptStrs abis) (ofOptStrs plats) warn =
      ofTagsResult (genericTags cfg interp abis plats) := by
  unfold Gen.PySrc.generic_tags genericTags
  have hjoin : ∀ a b : Str, str_join (PyVal.str (ofString "")) (PyVal.list [.str a, .str b]) = .ok (.str (a ++ b)) := by
    intro a b; simp [str_join, joinStrs, ofString]
  rcases interp with _ | _ | ⟨c, cs⟩
  · simp only [ofOptStr, truthy_none, Bool.not_false, if_true, interpreter_name_eq_model,
      interpreter_version_eq_model cfg warn hs, ok_bind, hjoin]
    generalize interpreterName cfg ++ interpreterVersion cfg = I
    generic_tags_tail
  · simp only [ofOptStr, truthy_str, List.isEmpty_nil, Bool.not_true, Bool.not_false, if_true, interpreter_name_eq_model,
      interpreter_version_eq_model cfg warn hs, ok_bind, hjoin]
    generalize interpreterName cfg ++ interpreterVersion cfg = I
    generic_tags_tail
  · simp only [ofOptStr, truthy_str, List.isEmpty_cons, Bool.not_false, Bool.not_true, Bool.false_eq_true, if_false]
    generalize c :: cs = I
    generic_tags_tail

/-! ### `sys_tags` -/

/-- `sys_tags(warn=…)` under the environment table: the concatenation the model computes -/
theorem sys_tags_eq_model (cfg : Cfg) (warn : PyVal) (hs : cfg.sysVersion.length ≤ 2) (hv : cfg.sysVersion ≠ []) :
    Gen.PySrc.sys_tags (envOfCfg cfg) warn = ofTagsResult (sysTags cfg) := by
  unfold Gen.PySrc.sys_tags sysTags
  have hc := cpython_tags_eq_model cfg none none none warn hs (by simpa [versionOrDefault] using hv)
  have hg := generic_tags_eq_model cfg none none none (.bool false) hs
  have hk := fun interp => compatible_tags_eq_model cfg none interp none hs (by simpa [versionOrDefault] using hv)
  simp only [ofOptVersion, ofOptStrs, ofOptStr] at hc hg hk
  have hk0 := hk none
  have hk1 := fun s => hk (some s)
  simp only at hk0 hk1
  simp only [interpreter_name_eq_model, ok_bind, eq_str, show ofString "cp" = sCp from rfl, show ofString "pp" = sPp from rfl,
    interpreter_version_eq_model cfg warn hs]
  by_cases h1 : (interpreterName cfg == sCp) = true
  · have h2 : (interpreterName cfg == sPp) = false := by
      simp only [beq_iff_eq] at h1; rw [h1]; decide
    simp only [h1, h2, if_true, Bool.false_eq_true, if_false, hc, ok_bind, iterate_iter, PyRt.add, pure_ok, hk1,
      show ofString "pp3" = sPp3 from rfl]
    simp [ofTagsResult, bind, Except.bind, pure, Except.pure]
  · have h1' : (interpreterName cfg == sCp) = false := by simpa using h1
    simp only [h1', Bool.false_eq_true, if_false, hg]
    cases hgt : genericTags cfg none none none with
    | error e => rfl
    | ok l =>
      simp only [ofTagsResult, ok_bind, iterate_iter]
      by_cases h2 : (interpreterName cfg == sPp) = true
      · simp only [h2, if_true, hk1, show ofString "pp3" = sPp3 from rfl, ok_bind, iterate_iter, pure_ok]
        simp [bind, Except.bind, pure, Except.pure]
      · have h2' : (interpreterName cfg == sPp) = false := by simpa using h2
        simp only [h2', Bool.false_eq_true, if_false, hk0, ok_bind, iterate_iter, pure_ok]
        simp [bind, Except.bind, pure, Except.pure]

end Src
