import PkgProofs.Props.Src.MetaCtype
/-!
# `_Validator.__get__` (x6, C17)

The descriptor is translated with the instance `__dict__` as the field list of the record (`PyMd.setattr_dyn`,
`PyMd.del_field_item`) and hands back `(value, instance afterwards)`; `src.call` runs it against the real descriptor.
-/
namespace Src

theorem _Validator.__get___translated : Gen.PySrc._Validator.__get___supported = true := rfl

end Src
