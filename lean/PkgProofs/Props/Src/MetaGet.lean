import PkgProofs.Props.Src.MetaCtype
/-!
# `_Validator.__get__` = `Meta.descGet` (x6, C17)

The translation of the descriptor models the instance `__dict__` as the field list of the record `obj "Metadata" fields`
and hands back `(value, instance afterwards)`.  The model's state `Meta.St` keeps `instance._raw` and the rest of the
instance dict as two association lists; `InstRel` relates the two presentations up to equal look-ups (the record appends a
new attribute, `aset` puts it in front).
-/
namespace Src
open PyRt Py PyMeta PyMd Gen.Meta
set_option linter.unusedSimpArgs false

theorem _Validator.__get___translated : Gen.PySrc._Validator.__get___supported = true := rfl

namespace GetP

/-! ### `extOf6` is `extOf` except for the one new call -/

theorem extOf6_eq (o : Meta.Oracle) (name : String) (args : List PyVal) (h : name ≠ "EmailMessage.set_content_type") :
    extOf6 o name args = extOf o name args := by
  simp [extOf6, h]

theorem ext6_call_eq (o : Meta.Oracle) (name : String) (args : List PyVal) (h : name ≠ "EmailMessage.set_content_type") :
    ext_call (extOf6 o) name args = ext_call (extOf o) name args := extOf6_eq o name args h

theorem ext6_c0 (o : Meta.Oracle) (args : List PyVal) :
    ext_call (extOf6 o) "utils.canonicalize_name" args = ext_call (extOf o) "utils.canonicalize_name" args := ext6_call_eq o _ args (by decide)
theorem ext6_c1 (o : Meta.Oracle) (args : List PyVal) :
    ext_call (extOf6 o) "version_module.parse" args = ext_call (extOf o) "version_module.parse" args := ext6_call_eq o _ args (by decide)
theorem ext6_c2 (o : Meta.Oracle) (args : List PyVal) :
    ext_call (extOf6 o) "specifiers.SpecifierSet" args = ext_call (extOf o) "specifiers.SpecifierSet" args := ext6_call_eq o _ args (by decide)
theorem ext6_c3 (o : Meta.Oracle) (args : List PyVal) :
    ext_call (extOf6 o) "requirements.Requirement" args = ext_call (extOf o) "requirements.Requirement" args := ext6_call_eq o _ args (by decide)
theorem ext6_c4 (o : Meta.Oracle) (args : List PyVal) :
    ext_call (extOf6 o) "licenses.canonicalize_license_expression" args = ext_call (extOf o) "licenses.canonicalize_license_expression" args := ext6_call_eq o _ args (by decide)
theorem ext6_c5 (o : Meta.Oracle) (args : List PyVal) :
    ext_call (extOf6 o) "str.lower" args = ext_call (extOf o) "str.lower" args := ext6_call_eq o _ args (by decide)
theorem ext6_c6 (o : Meta.Oracle) (args : List PyVal) :
    ext_call (extOf6 o) "pathlib.PurePosixPath" args = ext_call (extOf o) "pathlib.PurePosixPath" args := ext6_call_eq o _ args (by decide)
theorem ext6_c7 (o : Meta.Oracle) (args : List PyVal) :
    ext_call (extOf6 o) "pathlib.PureWindowsPath" args = ext_call (extOf o) "pathlib.PureWindowsPath" args := ext6_call_eq o _ args (by decide)
theorem ext6_c8 (o : Meta.Oracle) (args : List PyVal) :
    ext_call (extOf6 o) "PurePosixPath.is_absolute" args = ext_call (extOf o) "PurePosixPath.is_absolute" args := ext6_call_eq o _ args (by decide)
theorem ext6_c9 (o : Meta.Oracle) (args : List PyVal) :
    ext_call (extOf6 o) "PureWindowsPath.is_absolute" args = ext_call (extOf o) "PureWindowsPath.is_absolute" args := ext6_call_eq o _ args (by decide)
theorem ext6_c10 (o : Meta.Oracle) (args : List PyVal) :
    ext_call (extOf6 o) "PureWindowsPath.as_posix" args = ext_call (extOf o) "PureWindowsPath.as_posix" args := ext6_call_eq o _ args (by decide)

theorem name6 (o : Meta.Oracle) (self v : PyVal) :
    Gen.PySrc._Validator._process_name (extOf6 o) self v = Gen.PySrc._Validator._process_name (extOf o) self v := by
  unfold Gen.PySrc._Validator._process_name
  simp only [ext6_c0, ext6_c1, ext6_c2, ext6_c3, ext6_c4, ext6_c5, ext6_c6, ext6_c7, ext6_c8, ext6_c9, ext6_c10]
theorem version6 (o : Meta.Oracle) (self v : PyVal) :
    Gen.PySrc._Validator._process_version (extOf6 o) self v = Gen.PySrc._Validator._process_version (extOf o) self v := by
  unfold Gen.PySrc._Validator._process_version
  simp only [ext6_c0, ext6_c1, ext6_c2, ext6_c3, ext6_c4, ext6_c5, ext6_c6, ext6_c7, ext6_c8, ext6_c9, ext6_c10]
theorem dynamic6 (o : Meta.Oracle) (self v : PyVal) :
    Gen.PySrc._Validator._process_dynamic (extOf6 o) self v = Gen.PySrc._Validator._process_dynamic (extOf o) self v := by
  unfold Gen.PySrc._Validator._process_dynamic
  simp only [ext6_c0, ext6_c1, ext6_c2, ext6_c3, ext6_c4, ext6_c5, ext6_c6, ext6_c7, ext6_c8, ext6_c9, ext6_c10]
theorem provides_extra6 (o : Meta.Oracle) (self v : PyVal) :
    Gen.PySrc._Validator._process_provides_extra (extOf6 o) self v =
      Gen.PySrc._Validator._process_provides_extra (extOf o) self v := by
  unfold Gen.PySrc._Validator._process_provides_extra
  simp only [ext6_c0, ext6_c1, ext6_c2, ext6_c3, ext6_c4, ext6_c5, ext6_c6, ext6_c7, ext6_c8, ext6_c9, ext6_c10]
theorem requires_python6 (o : Meta.Oracle) (self v : PyVal) :
    Gen.PySrc._Validator._process_requires_python (extOf6 o) self v =
      Gen.PySrc._Validator._process_requires_python (extOf o) self v := by
  unfold Gen.PySrc._Validator._process_requires_python
  simp only [ext6_c0, ext6_c1, ext6_c2, ext6_c3, ext6_c4, ext6_c5, ext6_c6, ext6_c7, ext6_c8, ext6_c9, ext6_c10]
theorem requires_dist6 (o : Meta.Oracle) (self v : PyVal) :
    Gen.PySrc._Validator._process_requires_dist (extOf6 o) self v =
      Gen.PySrc._Validator._process_requires_dist (extOf o) self v := by
  unfold Gen.PySrc._Validator._process_requires_dist
  simp only [ext6_c0, ext6_c1, ext6_c2, ext6_c3, ext6_c4, ext6_c5, ext6_c6, ext6_c7, ext6_c8, ext6_c9, ext6_c10]
theorem license_expression6 (o : Meta.Oracle) (self v : PyVal) :
    Gen.PySrc._Validator._process_license_expression (extOf6 o) self v =
      Gen.PySrc._Validator._process_license_expression (extOf o) self v := by
  unfold Gen.PySrc._Validator._process_license_expression
  simp only [ext6_c0, ext6_c1, ext6_c2, ext6_c3, ext6_c4, ext6_c5, ext6_c6, ext6_c7, ext6_c8, ext6_c9, ext6_c10]
theorem license_files6 (o : Meta.Oracle) (self v : PyVal) :
    Gen.PySrc._Validator._process_license_files (extOf6 o) self v =
      Gen.PySrc._Validator._process_license_files (extOf o) self v := by
  unfold Gen.PySrc._Validator._process_license_files
  simp only [ext6_c0, ext6_c1, ext6_c2, ext6_c3, ext6_c4, ext6_c5, ext6_c6, ext6_c7, ext6_c8, ext6_c9, ext6_c10]

/-! ### attribute names -/

theorem char_toNat_ofNat (a : Nat) (ha : a < 55296) : (Char.ofNat a).toNat = a := by
  have hv : a.isValidChar := Or.inl ha
  simp only [Char.ofNat, hv, dite_true]
  simp [Char.ofNatAux, Char.toNat, UInt32.toNat]

/-- below the surrogates `toStringLossy` loses nothing -/
theorem toStringLossy_toList (s : Str) (hs : ∀ c ∈ s, c < 55296) :
    (toStringLossy s).toList.map Char.toNat = s := by
  simp only [toStringLossy, String.toList_ofList, List.map_map]
  induction s with
  | nil => rfl
  | cons c cs ih =>
    simp only [List.map_cons, Function.comp_apply, char_toNat_ofNat c (hs c (List.mem_cons_self ..))]
    rw [ih (fun d hd => hs d (List.mem_cons_of_mem _ hd))]

theorem toStringLossy_inj (a b : Str) (ha : ∀ c ∈ a, c < 55296) (hb : ∀ c ∈ b, c < 55296)
    (h : toStringLossy a = toStringLossy b) : a = b := by
  rw [← toStringLossy_toList a ha, ← toStringLossy_toList b hb, h]

theorem rawName_plain (f : Field) : ∀ c ∈ f.rawName, c < 55296 := by cases f <;> decide

theorem rawName_inj (f g : Field) (h : f.rawName = g.rawName) : f = g := by
  cases f <;> cases g <;> first | rfl | (exact absurd h (by decide))

/-- distinct descriptors are distinct attributes of the record -/
theorem attr_inj (f g : Field) (h : toStringLossy f.rawName = toStringLossy g.rawName) : f = g :=
  rawName_inj f g (toStringLossy_inj _ _ (rawName_plain f) (rawName_plain g) h)

theorem attr_ne_raw (f : Field) : toStringLossy f.rawName ≠ "_raw" := by cases f <;> decide

/-! ### records and association lists -/

theorem lookupField_setField (fs : List (String × PyVal)) (n m : String) (v : PyVal) :
    lookupField (setField fs n v) m = if n = m then some v else lookupField fs m := by
  induction fs with
  | nil => by_cases h : n = m <;> simp [setField, lookupField, h]
  | cons x xs ih =>
    obtain ⟨k, y⟩ := x
    by_cases hk : k = n
    · subst hk
      by_cases h : k = m <;> simp [setField, lookupField, h]
    · have hk' : (k == n) = false := by simpa using hk
      simp only [setField, hk', Bool.false_eq_true, if_false, lookupField, ih]
      by_cases h : n = m
      · subst h; simp [hk']
      · simp [h]

/-- a `dict` with `str` keys -/
def rawD (d : List (Str × PyVal)) : List (PyVal × PyVal) := d.map fun p => (.str p.1, p.2)

theorem dictLookup_rawD (d : List (Str × PyVal)) (k : Str) : dictLookup (rawD d) (.str k) = Meta.aget k d := by
  induction d with
  | nil => rfl
  | cons x xs ih =>
    simp only [rawD, List.map_cons, dictLookup, eq_str, Meta.aget] at ih ⊢
    by_cases h : x.1 = k <;> simp [h, ih]

theorem adel_notin {β} (k : Str) (d : List (Str × β)) (h : k ∉ d.map (·.1)) : Meta.adel k d = d := by
  induction d with
  | nil => rfl
  | cons x xs ih =>
    simp only [List.map_cons, List.mem_cons, not_or] at h
    have h1 : ¬ x.1 = k := fun e => h.1 e.symm
    simp [Meta.adel, h1, ih h.2]

theorem dictErase_rawD (d : List (Str × PyVal)) (k : Str) (hd : (d.map (·.1)).Nodup) :
    dictErase (rawD d) (.str k) = rawD (Meta.adel k d) := by
  induction d with
  | nil => rfl
  | cons x xs ih =>
    simp only [List.map_cons, List.nodup_cons] at hd
    simp only [rawD, List.map_cons, dictErase, eq_str, Meta.adel] at ih ⊢
    by_cases h : x.1 = k
    · subst h
      simp [adel_notin _ _ hd.1]
    · simp [h, ih hd.2]

theorem aget_adel {β} (k k' : Str) (d : List (Str × β)) :
    Meta.aget k' (Meta.adel k d) = if k' = k then none else Meta.aget k' d := by
  induction d with
  | nil => simp [Meta.adel, Meta.aget]
  | cons x xs ih =>
    by_cases h : x.1 = k
    · by_cases h' : k' = k
      · subst h'; simpa [Meta.adel, Meta.aget, h] using ih
      · have : ¬ k = k' := fun e => h' e.symm
        simp [Meta.adel, Meta.aget, h, ih, h', this]
    · by_cases h' : k' = k
      · subst h'; simp [Meta.adel, Meta.aget, h, ih]
      · simp [Meta.adel, Meta.aget, h, ih, h']

theorem aget_aset {β} (k k' : Str) (v : β) (d : List (Str × β)) :
    Meta.aget k' (Meta.aset k v d) = if k' = k then some v else Meta.aget k' d := by
  by_cases h : k' = k
  · subst h; simp [Meta.aset, Meta.aget]
  · have : ¬ k = k' := fun e => h e.symm
    simp [Meta.aset, Meta.aget, this, aget_adel, h]

theorem keys_adel_mem {β} (k k' : Str) (d : List (Str × β)) (h : k' ∈ (Meta.adel k d).map (·.1)) : k' ∈ d.map (·.1) := by
  induction d with
  | nil => simp [Meta.adel] at h
  | cons x xs ih =>
    by_cases hx : x.1 = k
    · simp only [Meta.adel, hx, if_true] at h
      exact List.mem_cons_of_mem _ (ih h)
    · simp only [Meta.adel, hx, if_false, List.map_cons, List.mem_cons] at h ⊢
      exact h.imp id ih

theorem nodup_adel {β} (k : Str) (d : List (Str × β)) (hd : (d.map (·.1)).Nodup) : ((Meta.adel k d).map (·.1)).Nodup := by
  induction d with
  | nil => simp [Meta.adel]
  | cons x xs ih =>
    simp only [List.map_cons, List.nodup_cons] at hd
    by_cases hx : x.1 = k
    · simp only [Meta.adel, hx, if_true]; exact ih hd.2
    · simp only [Meta.adel, hx, if_false, List.map_cons, List.nodup_cons]
      exact ⟨fun hm => hd.1 (keys_adel_mem _ _ _ hm), ih hd.2⟩

end GetP
open GetP

/-! ### the statement -/

/-- the descriptor object of field `f` (`_Validator` with `__set_name__` done) -/
def validatorOf (f : Field) : PyVal :=
  .obj "_Validator" [("name", .str f.rawName), ("raw_name", .str f.emailName), ("added", .str f.added)]

/-- how the cached (enriched) value of a field appears: the views on the right-hand sides of the `_process_*` theorems -/
def viewOfField : Field → Meta.Val → PyVal
  | .version => ofEnriched "Version"
  | .requires_python => ofEnriched "SpecifierSet"
  | .requires_dist => ofEnriched "Requirement"
  | _ => ofVal

/-- the record `inst` presents the model state `st`: `_raw` is a dict with pairwise distinct `str` keys that answers
look-ups as `st.raw` does, and the attribute of every field answers as `st.cache` does (under the field's view) -/
def InstRel (inst : PyVal) (st : Meta.St) : Prop :=
  ∃ (fs : List (String × PyVal)) (d : List (Str × PyVal)),
    inst = .obj "Metadata" fs ∧
    lookupField fs "_raw" = some (.dict (rawD d)) ∧
    (d.map (·.1)).Nodup ∧
    (∀ k : Str, dictLookup (rawD d) (.str k) = (Meta.aget k st.raw).map ofVal) ∧
    (∀ g : Field, lookupField fs (toStringLossy g.rawName) = (Meta.aget g.rawName st.cache).map (viewOfField g))

/-- the `_process_<name>` method of field `f`, if the class has one (`getattr(self, f"_process_{self.name}")`) -/
def procSrc (ext : PyRt.Oracle) (f : Field) (self value : PyVal) : M PyVal :=
  match f with
  | .metadata_version => Gen.PySrc._Validator._process_metadata_version self value
  | .name => Gen.PySrc._Validator._process_name ext self value
  | .version => Gen.PySrc._Validator._process_version ext self value
  | .summary => Gen.PySrc._Validator._process_summary self value
  | .description_content_type => Gen.PySrc._Validator._process_description_content_type ext self value
  | .dynamic => Gen.PySrc._Validator._process_dynamic ext self value
  | .provides_extra => Gen.PySrc._Validator._process_provides_extra ext self value
  | .requires_python => Gen.PySrc._Validator._process_requires_python ext self value
  | .requires_dist => Gen.PySrc._Validator._process_requires_dist ext self value
  | .license_expression => Gen.PySrc._Validator._process_license_expression ext self value
  | .license_files => Gen.PySrc._Validator._process_license_files ext self value
  | _ => pure value

theorem getattr_validator_name (f : Field) : getattr (validatorOf f) "name" = .ok (.str f.rawName) := by rfl

/-- the dispatcher picks the method named after the field -/
theorem _Validator._process__dyn_eq (ext : PyRt.Oracle) (f : Field) (v : PyVal) :
    Gen.PySrc._Validator._process__dyn ext (validatorOf f) v = procSrc ext f (validatorOf f) v := by
  unfold Gen.PySrc._Validator._process__dyn
  simp only [getattr_validator_name, ok_bind, eq_str]
  cases f <;> simp (config := { decide := true }) only [Field.rawName, procSrc, if_true, if_false, Bool.false_eq_true]

/-- the Python type `RawMetadata` gives the raw value of a field, as far as a converter looks at it -/
inductive Kind | str | list | any

def kindOf : Field → Kind
  | .name | .version | .summary | .description_content_type | .requires_python | .license_expression => .str
  | .dynamic | .provides_extra | .requires_dist | .license_files => .list
  | _ => .any

/-- `None` (absent), or a value of the type the field's converter expects (any value where there is no converter, and for
`metadata_version`, whose converter only tests membership) -/
def WellTyped (f : Field) (v : Meta.Val) : Prop :=
  match kindOf f, v with
  | _, .none => True
  | .str, .str _ => True
  | .list, .list _ => True
  | .any, _ => True
  | _, _ => False

/-- the side conditions of the `_process_*` theorems: an exception of the component parser that the model counts as
"any other exception" (`Verdict.esc`) is not one the `except` clause of the converter catches -/
def SaneOracle (o : Meta.Oracle) (f : Field) (v : Meta.Val) : Prop :=
  match f, v with
  | .name, .str s => ∀ cls, o.name s = .esc cls → catches "InvalidName" (toStringLossy cls) = false
  | .version, .str s => ∀ cls, o.version s = .esc cls → catches "InvalidVersion" (toStringLossy cls) = false
  | .description_content_type, .str s => ∀ cls, o.ctype s = .esc cls →
      (catches "ValueError" (toStringLossy cls) || catches "IndexError" (toStringLossy cls)) = false
  | .requires_python, .str s => ∀ cls, o.spec s = .esc cls → catches "InvalidSpecifier" (toStringLossy cls) = false
  | .license_expression, .str s => ∀ cls, o.lic s = .esc cls → catches "ValueError" (toStringLossy cls) = false
  | .provides_extra, .list l => ∀ x ∈ l, ∀ cls, o.name x = .esc cls → catches "InvalidName" (toStringLossy cls) = false
  | .requires_dist, .list l => ∀ x ∈ l, ∀ cls, o.req x = .esc cls → catches "InvalidRequirement" (toStringLossy cls) = false
  | _, _ => True

namespace GetP

theorem mv_nonstr (self : PyVal) (fld : Str) (v : Meta.Val) (h : ∀ s, v ≠ .str s) :
    Gen.PySrc._Validator._process_metadata_version self (ofVal v) = ofRes ofVal (Meta.procMetadataVersion fld v) := by
  unfold Gen.PySrc._Validator._process_metadata_version Meta.procMetadataVersion
  cases v with
  | str s => exact absurd rfl (h s)
  | none => simp [ofVal, PyRt.contains, PyVal.eq, ofRes, excName]
  | list l => simp [ofVal, PyRt.contains, PyVal.eq, ofRes, excName]
  | dict d => simp [ofVal, PyRt.contains, PyVal.eq, ofRes, excName]

theorem name_none (ext : PyRt.Oracle) (self : PyVal) :
    Gen.PySrc._Validator._process_name ext self .none = .error "InvalidMetadata" := by
  simp [Gen.PySrc._Validator._process_name, truthy]

theorem version_none (ext : PyRt.Oracle) (self : PyVal) :
    Gen.PySrc._Validator._process_version ext self .none = .error "InvalidMetadata" := by
  simp [Gen.PySrc._Validator._process_version, truthy]

end GetP

/-- the converter step of `__get__` (when it runs) against the model's -/
theorem procSrc_eq_model (o : Meta.Oracle) (f : Field) (self : PyVal) (v : Meta.Val)
    (hw : WellTyped f v) (hs : SaneOracle o f v) (hc : (Meta.isRequired f || v != .none) = true) :
    procSrc (extOf6 o) f self (ofVal v) =
      ofRes (viewOfField f) (match Meta.process o f with | some p => p v | none => .ok v) := by
  cases f
  case metadata_version =>
    cases v with
    | str s => exact _Validator._process_metadata_version_eq_model self _ s
    | none => exact mv_nonstr self _ _ (by simp)
    | list l => exact mv_nonstr self _ _ (by simp)
    | dict d => exact mv_nonstr self _ _ (by simp)
  case name =>
    cases v with
    | str s => simp only [procSrc, name6, Meta.process, viewOfField]; exact _Validator._process_name_eq_model o self _ s hs
    | none => simp [procSrc, name_none, Meta.process, Meta.procName, ofRes, excName, ofVal]
    | list l => exact absurd hw (by simp [WellTyped, kindOf])
    | dict d => exact absurd hw (by simp [WellTyped, kindOf])
  case version =>
    cases v with
    | str s => simp only [procSrc, Meta.process, viewOfField, version6]; exact _Validator._process_version_eq_model o self _ s hs
    | none => simp [procSrc, version_none, Meta.process, Meta.procVersion, ofRes, excName, ofVal]
    | list l => exact absurd hw (by simp [WellTyped, kindOf])
    | dict d => exact absurd hw (by simp [WellTyped, kindOf])
  case summary =>
    cases v with
    | str s => simp only [procSrc, Meta.process, viewOfField]; exact _Validator._process_summary_eq_model self _ s
    | none => exact absurd hc (by decide)
    | list l => exact absurd hw (by simp [WellTyped, kindOf])
    | dict d => exact absurd hw (by simp [WellTyped, kindOf])
  case description_content_type =>
    cases v with
    | str s => simp only [procSrc, Meta.process, viewOfField]; exact _Validator._process_description_content_type_eq_model o self _ s hs
    | none => exact absurd hc (by decide)
    | list l => exact absurd hw (by simp [WellTyped, kindOf])
    | dict d => exact absurd hw (by simp [WellTyped, kindOf])
  case requires_python =>
    cases v with
    | str s => simp only [procSrc, Meta.process, viewOfField, requires_python6]; exact _Validator._process_requires_python_eq_model o self _ s hs
    | none => exact absurd hc (by decide)
    | list l => exact absurd hw (by simp [WellTyped, kindOf])
    | dict d => exact absurd hw (by simp [WellTyped, kindOf])
  case license_expression =>
    cases v with
    | str s => simp only [procSrc, Meta.process, viewOfField, license_expression6]; exact _Validator._process_license_expression_eq_model o self _ s hs
    | none => exact absurd hc (by decide)
    | list l => exact absurd hw (by simp [WellTyped, kindOf])
    | dict d => exact absurd hw (by simp [WellTyped, kindOf])
  case dynamic =>
    cases v with
    | list l => simp only [procSrc, Meta.process, viewOfField, dynamic6]; exact _Validator._process_dynamic_eq_model o self _ l
    | none => exact absurd hc (by decide)
    | str s => exact absurd hw (by simp [WellTyped, kindOf])
    | dict d => exact absurd hw (by simp [WellTyped, kindOf])
  case provides_extra =>
    cases v with
    | list l => simp only [procSrc, Meta.process, viewOfField, provides_extra6]; exact _Validator._process_provides_extra_eq_model o self _ l hs
    | none => exact absurd hc (by decide)
    | str s => exact absurd hw (by simp [WellTyped, kindOf])
    | dict d => exact absurd hw (by simp [WellTyped, kindOf])
  case requires_dist =>
    cases v with
    | list l => simp only [procSrc, Meta.process, viewOfField, requires_dist6]; exact _Validator._process_requires_dist_eq_model o self _ l hs
    | none => exact absurd hc (by decide)
    | str s => exact absurd hw (by simp [WellTyped, kindOf])
    | dict d => exact absurd hw (by simp [WellTyped, kindOf])
  case license_files =>
    cases v with
    | list l => simp only [procSrc, Meta.process, viewOfField, license_files6]; exact _Validator._process_license_files_eq_model o self _ l
    | none => exact absurd hc (by decide)
    | str s => exact absurd hw (by simp [WellTyped, kindOf])
    | dict d => exact absurd hw (by simp [WellTyped, kindOf])
  all_goals simp [procSrc, Meta.process, ofRes, viewOfField]

namespace GetP

theorem required_bool (f : Field) :
    (f.rawName == ofString "metadata_version" || (f.rawName == ofString "name" || (f.rawName == ofString "version" || false)))
      = Meta.isRequired f := by
  cases f <;> decide

theorem in_required (f : Field) :
    in_ (.str f.rawName) (.tuple [.str (ofString "metadata_version"), .str (ofString "name"), .str (ofString "version")])
      = .ok (.bool (Meta.isRequired f)) := by
  simp only [in_, PyRt.contains, pure_ok, ok_bind, List.any_cons, List.any_nil, eq_str]
  exact congrArg (fun b => Except.ok (PyVal.bool b)) (required_bool f)

theorem aget_none_notin {β} (k : Str) (d : List (Str × β)) (h : Meta.aget k d = none) : k ∉ d.map (·.1) := by
  induction d with
  | nil => simp
  | cons x xs ih =>
    by_cases hx : x.1 = k
    · simp [Meta.aget, hx] at h
    · simp only [Meta.aget, hx, if_false] at h
      simp only [List.map_cons, List.mem_cons, not_or]
      exact ⟨fun e => hx e.symm, ih h⟩

theorem setattr_dyn_str (c : String) (fs : List (String × PyVal)) (k : Str) (v : PyVal) :
    setattr_dyn (.obj c fs) (.str k) v = .ok (.obj c (setField fs (toStringLossy k) v)) := by rfl

/-- `del instance._raw[name]` on a record whose `_raw` is a `str`-keyed dict -/
theorem del_raw (c : String) (fs : List (String × PyVal)) (d : List (Str × PyVal)) (k : Str)
    (hraw : lookupField fs "_raw" = some (.dict (rawD d))) (hnd : (d.map (·.1)).Nodup) :
    del_field_item (.obj c fs) "_raw" (.str k) =
      match Meta.aget k d with
      | some _ => .ok (.obj c (setField fs "_raw" (.dict (rawD (Meta.adel k d)))))
      | none => .error "KeyError" := by
  simp only [del_field_item, getattr, hraw, pure_ok, ok_bind, hashable, dictLookup_rawD]
  cases Meta.aget k d <;> simp [setattr, dictErase_rawD _ _ hnd]

/-- the relation after the cache write and the `_raw` pop -/
theorem instRel_after (st : Meta.St) (fs fs' : List (String × PyVal)) (d : List (Str × PyVal)) (f : Field) (w : Meta.Val)
    (hnd : (d.map (·.1)).Nodup)
    (hlk : ∀ k : Str, dictLookup (rawD d) (.str k) = (Meta.aget k st.raw).map ofVal)
    (hcache : ∀ g : Field, lookupField fs (toStringLossy g.rawName) = (Meta.aget g.rawName st.cache).map (viewOfField g))
    (h1 : lookupField fs' "_raw" = some (.dict (rawD (Meta.adel f.rawName d))))
    (h2 : ∀ g : Field, lookupField fs' (toStringLossy g.rawName) =
      if f = g then some (viewOfField f w) else lookupField fs (toStringLossy g.rawName)) :
    InstRel (.obj "Metadata" fs')
      { raw := Meta.adel f.rawName st.raw, cache := Meta.aset f.rawName w st.cache } := by
  refine ⟨fs', Meta.adel f.rawName d, rfl, h1, nodup_adel _ _ hnd, ?_, ?_⟩
  · intro k
    have := hlk k
    rw [dictLookup_rawD] at this
    rw [dictLookup_rawD, aget_adel, aget_adel, this]
    by_cases hk : k = f.rawName <;> simp [hk]
  · intro g
    rw [h2 g, aget_aset]
    by_cases hg : f = g
    · subst hg; simp
    · have : ¬ g.rawName = f.rawName := fun e => hg (rawName_inj _ _ e.symm)
      simp [hg, this, hcache g]

theorem is_not_none_ofVal (v : Meta.Val) : is_not_none (ofVal v) = .bool (v != .none) := by
  cases v <;> simp [is_not_none, isNone, ofVal]

end GetP


theorem _Validator.__get___eq_model (o : Meta.Oracle) (f : Field) (inst owner : PyVal) (st : Meta.St)
    (hrel : InstRel inst st)
    (hw : WellTyped f ((Meta.aget f.rawName st.raw).getD .none))
    (hs : SaneOracle o f ((Meta.aget f.rawName st.raw).getD .none)) :
    match Meta.descGet o f st with
    | (.ok v, st') => ∃ inst', Gen.PySrc._Validator.__get__ (extOf6 o) (validatorOf f) inst owner
          = .ok (.tuple [viewOfField f v, inst']) ∧ InstRel inst' st'
    | (.error e, _) => Gen.PySrc._Validator.__get__ (extOf6 o) (validatorOf f) inst owner = .error (excName e) := by
  obtain ⟨fs, d, rfl, hraw, hnd, hlk, hcache⟩ := hrel
  generalize hv : (Meta.aget f.rawName st.raw).getD .none = v at hw hs
  have h1 : getattr (.obj "Metadata" fs) "_raw" = .ok (.dict (rawD d)) := by simp [getattr, hraw]
  have h2 : dict_get (.dict (rawD d)) (.str f.rawName) .none = .ok (ofVal v) := by
    simp only [dict_get, hashable, hlk, pure_ok, ← hv]
    cases Meta.aget f.rawName st.raw <;> rfl
  -- the tail: cache write, `_raw` pop
  have hraw' : ∀ value, lookupField (setField fs (toStringLossy f.rawName) value) "_raw" = some (.dict (rawD d)) := by
    intro value; rw [lookupField_setField, if_neg (attr_ne_raw f), hraw]
  have htail : ∀ (w : Meta.Val), ∃ fs',
      (match Meta.aget f.rawName d with
       | some _ => setField (setField fs (toStringLossy f.rawName) (viewOfField f w)) "_raw" (.dict (rawD (Meta.adel f.rawName d)))
       | none => setField fs (toStringLossy f.rawName) (viewOfField f w)) = fs' ∧
      InstRel (.obj "Metadata" fs') { raw := Meta.adel f.rawName st.raw, cache := Meta.aset f.rawName w st.cache } := by
    intro w
    refine ⟨_, rfl, instRel_after st fs _ d f w hnd hlk hcache ?_ ?_⟩
    · cases hd : Meta.aget f.rawName d with
      | some x => simp only [lookupField_setField, if_true]
      | none => simp only [hraw', adel_notin _ _ (aget_none_notin _ _ hd)]
    · intro g
      have hne : ¬ "_raw" = toStringLossy g.rawName := fun e => attr_ne_raw g e.symm
      by_cases hg : f = g
      · subst hg
        cases hd : Meta.aget f.rawName d <;> simp [lookupField_setField, hne]
      · have : ¬ toStringLossy f.rawName = toStringLossy g.rawName := fun e => hg (attr_inj _ _ e)
        cases hd : Meta.aget f.rawName d <;> simp [lookupField_setField, hne, this, hg]
  unfold Gen.PySrc._Validator.__get__
  simp only [h1, getattr_validator_name, ok_bind, h2, in_required, is_not_none_ofVal, truthy_bool, pure_ok,
    _Validator._process__dyn_eq, setattr_dyn_str]
  have ck : catches "KeyError" "KeyError" = true := by decide
  simp only [del_raw _ _ d _ (hraw' _) hnd]
  unfold Meta.descGet
  by_cases hc : (Meta.isRequired f || v != .none) = true
  · have hconv : Meta.conv o f (Meta.aget f.rawName st.raw) =
        (match Meta.process o f with | some p => p v | none => .ok v) := by
      simp only [Meta.conv, hv, hc, if_true]
      cases Meta.process o f <;> rfl
    have hp := procSrc_eq_model o f (validatorOf f) v hw hs hc
    have hcond : (if Meta.isRequired f = true then (Except.ok (PyVal.bool (Meta.isRequired f)) : M PyVal)
        else Except.ok (PyVal.bool (v != Meta.Val.none))) = .ok (.bool true) := by
      cases hr : Meta.isRequired f
      · simp only [hr, Bool.false_or] at hc; simp [hc]
      · simp
    rw [hconv]
    simp only [hcond, ok_bind, truthy_bool, if_true, hp]
    cases hres : (match Meta.process o f with | some p => p v | none => .ok v) with
    | error e => simp [ofRes]
    | ok w =>
      obtain ⟨fs', hfs, hrel⟩ := htail w
      refine ⟨.obj "Metadata" fs', ?_, hrel⟩
      simp only [ofRes, ok_bind]
      rw [← hfs]
      cases hd : Meta.aget f.rawName d <;> simp [ck]
  · simp only [Bool.or_eq_true, not_or, Bool.not_eq_true, bne_eq_false_iff_eq] at hc
    obtain ⟨hr, hn⟩ := hc
    subst hn
    have hconv : Meta.conv o f (Meta.aget f.rawName st.raw) = .ok .none := by
      simp [Meta.conv, hv, hr]
    have hview : viewOfField f .none = .none := by cases f <;> rfl
    rw [hconv]
    obtain ⟨fs', hfs, hrel⟩ := htail .none
    refine ⟨.obj "Metadata" fs', ?_, hrel⟩
    rw [← hfs]
    cases hd : Meta.aget f.rawName d <;> simp [ck, hr, hview, ofVal]

/-- fields without a `_process_*` method: the cache write and the `_raw` pop are the whole behaviour; no side condition -/
theorem _Validator.__get___no_converter (o : Meta.Oracle) (f : Field) (inst owner : PyVal) (st : Meta.St)
    (hrel : InstRel inst st) (hf : Meta.process o f = none) :
    ∃ inst', Gen.PySrc._Validator.__get__ (extOf6 o) (validatorOf f) inst owner
        = .ok (.tuple [ofVal ((Meta.aget f.rawName st.raw).getD .none), inst']) ∧
      InstRel inst' { raw := Meta.adel f.rawName st.raw,
                      cache := Meta.aset f.rawName ((Meta.aget f.rawName st.raw).getD .none) st.cache } := by
  have hk : kindOf f = .any ∧ viewOfField f = ofVal ∧ f ≠ .metadata_version := by
    cases f <;> first | (exact ⟨rfl, rfl, by decide⟩) | (simp [Meta.process] at hf)
  have hw : WellTyped f ((Meta.aget f.rawName st.raw).getD .none) := by
    simp only [WellTyped, hk.1]; split <;> trivial
  have hs : SaneOracle o f ((Meta.aget f.rawName st.raw).getD .none) := by
    cases f <;> first | trivial | (simp [Meta.process] at hf)
  have hd : Meta.descGet o f st = (.ok ((Meta.aget f.rawName st.raw).getD .none),
      { raw := Meta.adel f.rawName st.raw,
        cache := Meta.aset f.rawName ((Meta.aget f.rawName st.raw).getD .none) st.cache }) := by
    have hconv : Meta.conv o f (Meta.aget f.rawName st.raw) = .ok ((Meta.aget f.rawName st.raw).getD .none) := by
      simp only [Meta.conv, hf]; split <;> rfl
    simp only [Meta.descGet, hconv]
  have := _Validator.__get___eq_model o f inst owner st hrel hw hs
  rw [hd] at this
  simpa only [hk.2.1] using this

/-! ### non-vacuity -/

/-- an oracle that accepts everything as it is -/
def idOracle : Meta.Oracle :=
  { name := .ok, version := .ok, spec := .ok, req := .ok, lic := .ok, ctype := fun _ => .bad, lower := id,
    posixAbs := fun _ => false, winAbs := fun _ => false, winPosix := id }

def inst0 : PyVal :=
  .obj "Metadata" [("_raw", .dict [(.str (ofString "name"), .str (ofString "foo")), (.str (ofString "keywords"), .list [.str (ofString "a")])]),
    ("version", opaqueObj "Version" (ofString "1.0"))]

def st0 : Meta.St :=
  { raw := [(ofString "name", .str (ofString "foo")), (ofString "keywords", .list [ofString "a"])],
    cache := [(ofString "version", .str (ofString "1.0"))] }

theorem instRel0 : InstRel inst0 st0 := by
  refine ⟨_, [(ofString "name", .str (ofString "foo")), (ofString "keywords", .list [.str (ofString "a")])], rfl, rfl, by decide, ?_, ?_⟩
  · intro k
    simp only [rawD, List.map, dictLookup, eq_str, Meta.aget, st0]
    by_cases h1 : ofString "name" = k <;> by_cases h2 : ofString "keywords" = k <;> simp [h1, h2, ofVal]
  · intro g
    cases g <;> rfl

example : InstRel inst0 st0 ∧ WellTyped .name ((Meta.aget Field.name.rawName st0.raw).getD .none) ∧
    SaneOracle idOracle .name ((Meta.aget Field.name.rawName st0.raw).getD .none) :=
  ⟨instRel0, by simp [WellTyped, kindOf, st0, Meta.aget, Field.rawName]; trivial, by intro cls h; simp [idOracle] at h⟩

example : ∃ inst', Gen.PySrc._Validator.__get__ (extOf6 idOracle) (validatorOf .keywords) inst0 .none
    = .ok (.tuple [.list [.str (ofString "a")], inst']) ∧
    InstRel inst' { raw := [(ofString "name", .str (ofString "foo"))],
                    cache := [(ofString "keywords", .list [ofString "a"]), (ofString "version", .str (ofString "1.0"))] } :=
  _Validator.__get___no_converter idOracle .keywords inst0 .none st0 instRel0 rfl

/-- the main theorem at a field with a converter -/
example : ∃ inst', Gen.PySrc._Validator.__get__ (extOf6 idOracle) (validatorOf .name) inst0 .none
    = .ok (.tuple [.str (ofString "foo"), inst']) ∧
    InstRel inst' { raw := [(ofString "keywords", .list [ofString "a"])],
                    cache := [(ofString "name", .str (ofString "foo")), (ofString "version", .str (ofString "1.0"))] } :=
  _Validator.__get___eq_model idOracle .name inst0 .none st0 instRel0
    (by simp [WellTyped, kindOf, st0, Meta.aget, Field.rawName]; trivial) (by intro cls h; simp [idOracle] at h)

/-- why `WellTyped`: on a raw value of the wrong type the model's converters answer `TypeError` (`Meta.tyErr`), the source
does whatever the statements do — `not []` is true, so `_process_name([])` raises `InvalidMetadata` -/
example : Gen.PySrc._Validator._process_name (extOf6 idOracle) (validatorOf .name) (ofVal (.list [])) = .error "InvalidMetadata"
    ∧ ofRes ofVal (Meta.procName idOracle Field.name.emailName (.list [])) = .error "TypeError" := by
  constructor
  · simp [Gen.PySrc._Validator._process_name, ofVal, truthy]
  · have : toStringLossy (ofString "TypeError") = "TypeError" := by decide
    simp [Meta.procName, Meta.tyErr, ofRes, excName, this]

end Src
