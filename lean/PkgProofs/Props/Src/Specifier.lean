import PkgModel.Generated.PySrc
import PkgModel.Specifier
import PkgProofs.Lemmas.PyRt
import PkgProofs.Lemmas.SrcRobust
import PkgProofs.Lemmas.SrcLoops
/-!
# Translated source of `packaging.specifiers` = the model

`Gen.PySrc.f` is the Lean translation of the *current source text* of the Python function `f`
(`harness/translators/pysrc.py`); the theorems say that it computes what the hand-written model function
computes, for all arguments of the types the callers pass.
-/
namespace Src
open PyRt Py S

theorem _is_not_suffix_translated : Gen.PySrc._is_not_suffix_supported = true := rfl
theorem _version_join_translated : Gen.PySrc._version_join_supported = true := rfl
theorem _pad_version_translated : Gen.PySrc._pad_version_supported = true := rfl

/-- `_is_not_suffix(segment)` for every string -/
theorem _is_not_suffix_eq_model (s : Str) :
    Gen.PySrc._is_not_suffix (.str s) = .ok (.bool (S.isNotSuffix s)) := by
  unfold Gen.PySrc._is_not_suffix
  first
  | ( -- `not any(segment.startswith(p) for p in (...))`
      have h := anyM_ok (fun «prefix» => do PyRt.str_startswith (.str s) «prefix»)
        (fun v => match v with | .str p => startsWith s p | _ => false)
        [.str (ofString "dev"), .str (ofString "a"), .str (ofString "b"), .str (ofString "rc"), .str (ofString "post")]
        (by intro x hx; simp at hx; rcases hx with rfl | rfl | rfl | rfl | rfl <;> rfl)
      simp only [any_gen, iterate_tuple, ok_bind, h, pure_ok, truthy_bool]
      simp [S.isNotSuffix]
      done)
  | ( -- `not segment.startswith((...))`: `str.startswith` of a tuple tests each prefix in turn
      simp only [str_startswith, List.foldr, ok_bind, pure_ok, truthy_bool, S.isNotSuffix]
      cases h1 : startsWith s (ofString "dev") <;> cases h2 : startsWith s (ofString "a") <;>
        cases h3 : startsWith s (ofString "b") <;> cases h4 : startsWith s (ofString "rc") <;>
        cases h5 : startsWith s (ofString "post") <;> simp [h1, h2, h3, h4, h5])

/-- `_version_join(components)` for every list of strings; the model's `none` is the `ValueError` of unpacking `[]` -/
theorem _version_join_eq_model (l : List Str) :
    Gen.PySrc._version_join (ofStrs l) =
      match S.versionJoin l with
      | some r => .ok (.str r)
      | none => .error "ValueError" := by
  unfold Gen.PySrc._version_join
  cases l with
  | nil => rfl
  | cons e rest =>
    simp [ofStrs, unpackHeadRest, format, str_join, joinStrs_strs, S.versionJoin, ofString]

theorem takewhile_isdigit (l : List Str) :
    takewhile (fun x => do PyRt.str_isdigit x) (.list (l.map .str)) = .ok (.iter ((l.takeWhile S.isDigitStr).map .str)) := by
  rw [takewhile_list _ (fun v => match v with | .str s => S.isDigitStr s | _ => false)]
  · simp only [List.takeWhile_map]; rfl
  · intro x hx
    simp only [List.mem_map] at hx
    obtain ⟨a, _, rfl⟩ := hx
    rfl

theorem take_takeWhile_length {α} (p : α → Bool) (l : List α) : l.take (l.takeWhile p).length = l.takeWhile p := by
  induction l with
  | nil => rfl
  | cons x xs ih => by_cases h : p x = true <;> simp [h, ih]

/-- `_pad_version(left, right)` for all lists of strings -/
theorem _pad_version_eq_model (l r : List Str) :
    Gen.PySrc._pad_version (ofStrs l) (ofStrs r) =
      .ok (.tuple [ofStrs (S.padVersion l r).1, ofStrs (S.padVersion l r).2]) := by
  first
  | ( -- `takewhile` / `insert` / `chain.from_iterable`
      unfold Gen.PySrc._pad_version
      simp only [ofStrs, takewhile_isdigit, ok_bind, list_iter, list_append_list, List.nil_append, List.cons_append,
        getitem_list_zero, len_list, List.length_map, getslice_list_from, sub_int, max2_int, mul_singleton,
        list_insert_one]
      have hc : ∀ a b c : List PyVal, chain_from_iterable (.list [.list a, .list b, .list c]) = .ok (.iter (a ++ b ++ c)) := by
        intro a b c
        have := chain_from_iterable_lists [a, b, c]
        simpa using this
      simp only [hc, ok_bind, list_iter, pure_ok, S.padVersion, List.map_append, List.map_drop, List.map_replicate]
      have e1 : (max 0 (((r.takeWhile S.isDigitStr).length : Int) - (l.takeWhile S.isDigitStr).length)).toNat
          = (r.takeWhile S.isDigitStr).length - (l.takeWhile S.isDigitStr).length := by omega
      have e2 : (max 0 (((l.takeWhile S.isDigitStr).length : Int) - (r.takeWhile S.isDigitStr).length)).toNat
          = (l.takeWhile S.isDigitStr).length - (r.takeWhile S.isDigitStr).length := by omega
      rw [e1, e2]
      rfl
      done
    )
  | ( -- a counting loop for the length of the release segment, two list displays with unpacking
      unfold Gen.PySrc._pad_version
      simp only [ofStrs, iterate_list, ok_bind]
      have hd : ∀ x : Str, str_isdigit (.str x) = .ok (.bool (S.isDigitStr x)) := fun _ => rfl
      rw [show (PyVal.int 0) = PyVal.int ((0 : Nat) : Int) from rfl]
      rw [forIn_count_while PyVal.str S.isDigitStr _ ?h1 ?h2 l 0, ok_bind,
          forIn_count_while PyVal.str S.isDigitStr _ ?h1 ?h2 r 0]
      case h1 => intro x n hx; simp [hd, hx]
      case h2 => intro x n hx; simp [hd, hx, add_int]
      simp only [ok_bind, Nat.zero_add, sub_int, max2_int, mul_singleton, getslice_list_to, getslice_list_from,
        list_extend_list_list, pure_ok, List.nil_append, S.padVersion, List.map_append, List.map_drop, List.map_replicate,
        ← List.map_take, take_takeWhile_length]
      have e1 : (max ((0 : Nat) : Int) (((r.takeWhile S.isDigitStr).length : Int) - (l.takeWhile S.isDigitStr).length)).toNat
          = (r.takeWhile S.isDigitStr).length - (l.takeWhile S.isDigitStr).length := by omega
      have e2 : (max ((0 : Nat) : Int) (((l.takeWhile S.isDigitStr).length : Int) - (r.takeWhile S.isDigitStr).length)).toNat
          = (l.takeWhile S.isDigitStr).length - (r.takeWhile S.isDigitStr).length := by omega
      rw [e1, e2]
      rfl)

end Src
