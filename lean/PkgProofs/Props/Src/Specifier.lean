import PkgModel.Generated.PySrc
import PkgModel.Specifier
import PkgProofs.Lemmas.PyRt
/-!
# Translated source of `packaging.specifiers` = the model

`Gen.PySrc.f` is the Lean translation of the *current source text* of the Python function `f`
(`harness/translators/pysrc.py`); the theorems say that it computes what the hand-written model function
computes, for all arguments of the types the callers pass.
-/
namespace Src
open PyRt Py S

theorem _is_not_suffix_translated : Gen.PySrc._is_not_suffix_supported = true := rfl
theorem _version_join_translated : Gen.PySrc._version_join_supported = true := rfl
theorem _pad_version_translated : Gen.PySrc._pad_version_supported = true := rfl

/-- `_is_not_suffix(segment)` for every string -/
theorem _is_not_suffix_eq_model (s : Str) :
    Gen.PySrc._is_not_suffix (.str s) = .ok (.bool (S.isNotSuffix s)) := by
  unfold Gen.PySrc._is_not_suffix
  have h := anyM_ok (fun «prefix» => do PyRt.str_startswith (.str s) «prefix»)
    (fun v => match v with | .str p => startsWith s p | _ => false)
    [.str (ofString "dev"), .str (ofString "a"), .str (ofString "b"), .str (ofString "rc"), .str (ofString "post")]
    (by intro x hx; simp at hx; rcases hx with rfl | rfl | rfl | rfl | rfl <;> rfl)
  simp only [any_gen, iterate_tuple, ok_bind, h, pure_ok, truthy_bool]
  simp [S.isNotSuffix]

/-- `_version_join(components)` for every list of strings; the model's `none` is the `ValueError` of unpacking `[]` -/
theorem _version_join_eq_model (l : List Str) :
    Gen.PySrc._version_join (ofStrs l) =
      match S.versionJoin l with
      | some r => .ok (.str r)
      | none => .error "ValueError" := by
  unfold Gen.PySrc._version_join
  cases l with
  | nil => rfl
  | cons e rest =>
    simp [ofStrs, unpackHeadRest, format, str_join, joinStrs_strs, S.versionJoin, ofString]

theorem takewhile_isdigit (l : List Str) :
    takewhile (fun x => do PyRt.str_isdigit x) (.list (l.map .str)) = .ok (.iter ((l.takeWhile S.isDigitStr).map .str)) := by
  rw [takewhile_list _ (fun v => match v with | .str s => S.isDigitStr s | _ => false)]
  · simp only [List.takeWhile_map]; rfl
  · intro x hx
    simp only [List.mem_map] at hx
    obtain ⟨a, _, rfl⟩ := hx
    rfl

/-- `_pad_version(left, right)` for all lists of strings -/
theorem _pad_version_eq_model (l r : List Str) :
    Gen.PySrc._pad_version (ofStrs l) (ofStrs r) =
      .ok (.tuple [ofStrs (S.padVersion l r).1, ofStrs (S.padVersion l r).2]) := by
  unfold Gen.PySrc._pad_version
  simp only [ofStrs, takewhile_isdigit, ok_bind, list_iter, list_append_list, List.nil_append, List.cons_append,
    getitem_list_zero, len_list, List.length_map, getslice_list_from, sub_int, max2_int, mul_singleton,
    list_insert_one]
  have hc : ∀ a b c : List PyVal, chain_from_iterable (.list [.list a, .list b, .list c]) = .ok (.iter (a ++ b ++ c)) := by
    intro a b c
    have := chain_from_iterable_lists [a, b, c]
    simpa using this
  simp only [hc, ok_bind, list_iter, pure_ok, S.padVersion, List.map_append, List.map_drop, List.map_replicate]
  have e1 : (max 0 (((r.takeWhile S.isDigitStr).length : Int) - (l.takeWhile S.isDigitStr).length)).toNat
      = (r.takeWhile S.isDigitStr).length - (l.takeWhile S.isDigitStr).length := by omega
  have e2 : (max 0 (((l.takeWhile S.isDigitStr).length : Int) - (r.takeWhile S.isDigitStr).length)).toNat
      = (l.takeWhile S.isDigitStr).length - (r.takeWhile S.isDigitStr).length := by omega
  rw [e1, e2]
  rfl

end Src
