import PkgProofs.Props.Src.PlatMusl
import PkgProofs.Props.Src.PlatMany
import PkgProofs.Props.Src.PlatApple
import PkgProofs.Props.Src.PlatLinux
/-!
# `_linux_platforms` and `tags.platform_tags` = the model (x6, C16): the callee theorems put together

`PlatLinux.lean` proves the two functions from the equations of their callees; here those are discharged with
`PlatMany.lean`, `PlatMusl.lean`, `PlatApple.lean`, for every environment that answers the probes as the model's record says.
-/
namespace Src
open PyRt PyRx Py Plat Elf

/-- `_linux_platforms(is_32bit)` -/
theorem _linux_platforms_eq_model (env : Env) (cfg : LCfg) (exe : Str) (getPlatform : Str) (is32 : Bool)
    (he : LinuxEnv env cfg exe) (hg : env_call env "sysconfig.get_platform" [] = .ok (.str getPlatform)) :
    Gen.PySrc._linux_platforms env (.bool is32) = .ok (.iter ((linuxPlatforms cfg getPlatform is32).map .str)) :=
  _linux_platforms_of env cfg getPlatform is32 hg
    (fun archs => _manylinux.platform_tags_eq_model env cfg exe he archs)
    (fun archs => _musllinux.platform_tags_eq_model env cfg exe archs he)

/-- `tags.platform_tags()`: for every table that answers all the probes as `p` says; the version strings the Apple
branches parse must be plain text (`PlainText`: the model's `pyInt` reads no sign / underscore) -/
theorem tags.platform_tags_eq_model (env : Env) (p : PCfg) (exe : Str) (he : SystemEnv env p exe)
    (hv : PlainText p.macVerStr) (hc : PlainText p.macCompat0) (hr : PlainText p.iosRelease) :
    Gen.PySrc.tags.platform_tags env = ofPlatResult (platformTags p) :=
  tags.platform_tags_of env p he.system
    (mac_platforms_eq_model env p.macVerStr p.macCpu p.macCompat0 p.is32 p.iosRelease p.iosMultiarch he.apple none none hv hc)
    (ios_platforms_eq_model env p.macVerStr p.macCpu p.macCompat0 p.is32 p.iosRelease p.iosMultiarch he.apple none none hr)
    (_linux_platforms_eq_model env p.linux exe p.getPlatform p.is32 he.linux he.getPlatform)
    (_generic_platforms_eq_model env p.getPlatform he.getPlatform)
    he.apple.is32


/-- a concrete probe record (a Linux box without `_manylinux` module, glibc 2.17 by confstr, no readable executable) and a
table answering it: the hypotheses of `tags.platform_tags_eq_model` are satisfiable -/
def x6DemoPCfg : PCfg :=
  { system := sLinux, getPlatform := ofString "linux-x86_64", is32 := false,
    linux := { exe := none, confstr := some (ofString "glibc 2.17"), ctypesVersion := none, policy := .absent, ldStderr := [] },
    macVerStr := ofString "12.6", macCpu := ofString "arm64", macCompat0 := [], iosRelease := ofString "16.4",
    iosMultiarch := ofString "arm64-iphoneos" }

def x6DemoEnv : Env :=
  [("platform.system", .list [row [] (.str sLinux)]),
   ("sysconfig.get_platform", .list [row [] (.str (ofString "linux-x86_64"))])]
  ++ linuxEnvOf x6DemoPCfg.linux (ofString "/usr/bin/python3")
  ++ appleEnvOf x6DemoPCfg.macVerStr x6DemoPCfg.macCpu x6DemoPCfg.macCompat0 false x6DemoPCfg.iosRelease x6DemoPCfg.iosMultiarch

set_option maxRecDepth 100000 in
theorem x6DemoEnv_ok : SystemEnv x6DemoEnv x6DemoPCfg (ofString "/usr/bin/python3") where
  system := by rfl
  getPlatform := by rfl
  linux := {
    exePath := by rfl
    musl := by rfl
    elf := by rfl
    confstr := by rfl
    ctypes := by rfl
    policy := ⟨_, by rfl, by show policyValue Policy.absent = _; rfl⟩ }
  apple := {
    macVer := ⟨_, by rfl⟩
    compat0 := by rfl
    is32 := by rfl
    iosVer := ⟨_, _, _, by rfl⟩
    multiarch := by rfl }


/-- the final theorem instantiated at the concrete table -/
example : Gen.PySrc.tags.platform_tags x6DemoEnv = ofPlatResult (platformTags x6DemoPCfg) :=
  tags.platform_tags_eq_model x6DemoEnv x6DemoPCfg _ x6DemoEnv_ok (by decide) (by decide) (by decide)

example : Gen.PySrc._linux_platforms x6DemoEnv (.bool false) =
    .ok (.iter ((linuxPlatforms x6DemoPCfg.linux x6DemoPCfg.getPlatform false).map .str)) :=
  _linux_platforms_eq_model x6DemoEnv x6DemoPCfg.linux _ _ false x6DemoEnv_ok.linux x6DemoEnv_ok.getPlatform

end Src
