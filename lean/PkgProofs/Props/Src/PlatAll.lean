import PkgProofs.Props.Src.PlatMusl
import PkgProofs.Props.Src.PlatMany
import PkgProofs.Props.Src.PlatApple
import PkgProofs.Props.Src.PlatLinux
/-!
# `_linux_platforms` and `tags.platform_tags` = the model (x6, C16): the callee theorems put together

`PlatLinux.lean` proves the two functions from the equations of their callees; here those are discharged with
`PlatMany.lean`, `PlatMusl.lean`, `PlatApple.lean`, for every environment that answers the probes as the model's record says.
-/
namespace Src
open PyRt PyRx Py Plat Elf

/-- `_linux_platforms(is_32bit)` -/
theorem _linux_platforms_eq_model (env : Env) (cfg : LCfg) (exe : Str) (getPlatform : Str) (is32 : Bool)
    (he : LinuxEnv env cfg exe) (hg : env_call env "sysconfig.get_platform" [] = .ok (.str getPlatform)) :
    Gen.PySrc._linux_platforms env (.bool is32) = .ok (.iter ((linuxPlatforms cfg getPlatform is32).map .str)) :=
  _linux_platforms_of env cfg getPlatform is32 hg
    (fun archs => _manylinux.platform_tags_eq_model env cfg exe he archs)
    (fun archs => _musllinux.platform_tags_eq_model env cfg exe archs he)

/-- `tags.platform_tags()`: for every table that answers all the probes as `p` says; the version strings the Apple
branches parse must be plain text (`PlainText`: the model's `pyInt` reads no sign / underscore) -/
theorem tags.platform_tags_eq_model (env : Env) (p : PCfg) (exe : Str) (he : SystemEnv env p exe)
    (hv : PlainText p.macVerStr) (hc : PlainText p.macCompat0) (hr : PlainText p.iosRelease) :
    Gen.PySrc.tags.platform_tags env = ofPlatResult (platformTags p) :=
  tags.platform_tags_of env p he.system
    (mac_platforms_eq_model env p.macVerStr p.macCpu p.macCompat0 p.is32 p.iosRelease p.iosMultiarch he.apple none none hv hc)
    (ios_platforms_eq_model env p.macVerStr p.macCpu p.macCompat0 p.is32 p.iosRelease p.iosMultiarch he.apple none none hr)
    (_linux_platforms_eq_model env p.linux exe p.getPlatform p.is32 he.linux he.getPlatform)
    (_generic_platforms_eq_model env p.getPlatform he.getPlatform)
    he.apple.is32

end Src
