import PkgProofs.Props.Src.ReqParse
import PkgProofs.Props.Src.MarkerParse
import PkgProofs.Props.Src.ReqFuel
/-!
# The translated requirement parser = `Req.parseSource`

`PkgProofs/Props/Src/ReqParse.lean` proves the requirement grammar's functions against the model given that the marker
sub-parser agrees with its model (`MarkerParserAgrees`); `PkgProofs/Props/Src/MarkerParse.lean` proves exactly that.
-/
namespace Src
open PyRt Py PyMk PyPar

theorem markerParserAgrees : MarkerParserAgrees :=
  fun s m h f hf => _parse_marker_agrees s m h f hf

/-- `_parse_requirement_marker` on related states -/
theorem _parse_requirement_marker_agrees' (s : PyTok.St) (m : Mk.St) (h : TokRel s m) (f : Nat) (a b : PyVal) :
    AgreesR ofML (Gen.PySrc._parse_requirement_marker a b) s (Req.parseReqMarker f m) :=
  ReqP.requirement_marker_any markerParserAgrees s m h f a b

/-- `parse_requirement(source)` = `Req.parseSource`, whenever the model's own fuel suffices -/
theorem parse_requirement_eq_model' (src : Str) (hfuel : Req.parseSource src ≠ .error .fuel) :
    Gen.PySrc.parse_requirement (.str src) =
      match Req.parseSource src with
      | .ok p => .ok (ofParsed p)
      | .error _ => .error "ParserSyntaxError" :=
  parse_requirement_eq_model markerParserAgrees src hfuel

/-- … and it always does (`Src.parseSource_ne_fuel`): the translated parser *is* the model's parser -/
theorem parse_requirement_eq_parseSource (src : Str) :
    Gen.PySrc.parse_requirement (.str src) =
      match Req.parseSource src with
      | .ok p => .ok (ofParsed p)
      | .error _ => .error "ParserSyntaxError" :=
  parse_requirement_eq_model' src (parseSource_ne_fuel src)

end Src
