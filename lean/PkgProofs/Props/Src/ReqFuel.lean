import PkgProofs.Props.Src.ReqParse
/-!
# `Req.parseSource` never runs out of fuel

`Req.parseSource src = Req.parseRequirement (Mk.fuelFor src.length) ⟨none, src⟩` with `fuelFor n = 3 * n + 8`.
Every sub-parser starts on a state whose `rest` is no longer than `src` (each step only drops a prefix of `rest`), the
two loops need `rest.length < fuel` (`ReqP.vm_suff`, `ReqP.el_suff`) and the marker parser `2 * rest.length + 3 ≤ fuel`
(`ReqP.mk_suff`); `3 n + 8` covers both.
-/
namespace Src
open Py
namespace ReqFuel
open ReqP

/-! ### every step leaves a `rest` that is not longer -/

theorem checkR_len {r : Req.RRule} {m m' : Mk.St} {t : Str} (h : Req.checkR r m = some (t, m')) :
    m'.rest.length ≤ m.rest.length := by
  rw [chk_req] at h; exact chk_len h

theorem check_len {r : Mk.Rule} {m m' : Mk.St} {t : Str} (h : Mk.St.check r m = some (t, m')) :
    m'.rest.length ≤ m.rest.length := by
  rw [chk_mk] at h; exact chk_len h

theorem el_len : ∀ (f : Nat) (acc : List Str) (m : Mk.St) (l : List Str) (m' : Mk.St),
    Req.extrasLoop f acc m = .ok (l, m') → m'.rest.length ≤ m.rest.length := by
  intro f
  induction f with
  | zero => intro acc m l m' h; simp [Req.extrasLoop] at h
  | succ f ih =>
    intro acc m l m' h
    simp only [Req.extrasLoop] at h
    have h0 := ws_len m
    split at h
    · cases h
    · split at h
      · cases h; exact h0
      · rename_i c m2 h2
        split at h
        · cases h
        · rename_i t m3 h3
          have := checkR_len h2
          have := ws_len m2
          have := checkR_len h3
          have := ih _ _ _ _ h
          omega

theorem vm_len : ∀ (f : Nat) (acc : Str) (m : Mk.St) (s : Str) (m' : Mk.St),
    Req.versionMany f acc m = .ok (s, m') → m'.rest.length ≤ m.rest.length := by
  intro f
  induction f with
  | zero => intro acc m s m' h; simp [Req.versionMany] at h
  | succ f ih =>
    intro acc m s m' h
    simp only [Req.versionMany] at h
    split at h
    · cases h; exact Nat.le_refl _
    · rename_i t m1 h1
      have := checkR_len h1
      have := ws_len m1
      split at h
      · cases h
      · split at h
        · cases h
        · split at h
          · cases h; omega
          · rename_i c m2 h2
            have := checkR_len h2
            have := ws_len m2
            have := ih _ _ _ _ h
            omega

theorem pel_len {f : Nat} {m : Mk.St} {l : List Str} {m' : Mk.St}
    (h : Req.parseExtrasList f m = .ok (l, m')) : m'.rest.length ≤ m.rest.length := by
  simp only [Req.parseExtrasList] at h
  split at h
  · cases h; exact Nat.le_refl _
  · rename_i t m1 h1
    have := checkR_len h1
    have := el_len _ _ _ _ _ h
    omega

theorem pel_suff {f : Nat} {m : Mk.St} (hf : m.rest.length < f) : Req.parseExtrasList f m ≠ .error .fuel := by
  simp only [Req.parseExtrasList]
  split
  · simp
  · rename_i t m1 h1
    have := checkR_len h1
    exact el_suff _ _ _ (by omega)

theorem pe_len {f : Nat} {m : Mk.St} {l : List Str} {m' : Mk.St}
    (h : Req.parseExtras f m = .ok (l, m')) : m'.rest.length ≤ m.rest.length := by
  simp only [Req.parseExtras] at h
  split at h
  · cases h; exact Nat.le_refl _
  · rename_i t m1 h1
    have := checkR_len h1
    have := ws_len m1
    simp only [bind, Except.bind] at h
    split at h
    · cases h
    · rename_i v hv
      obtain ⟨ex, m2⟩ := v
      have := pel_len hv
      have := ws_len m2
      simp only at h
      split at h
      · cases h
      · rename_i t3 m3 h3
        have := checkR_len h3
        cases h
        omega

theorem pe_suff {f : Nat} {m : Mk.St} (hf : m.rest.length < f) : Req.parseExtras f m ≠ .error .fuel := by
  simp only [Req.parseExtras]
  split
  · simp
  · rename_i t m1 h1
    have := checkR_len h1
    have := ws_len m1
    simp only [bind, Except.bind]
    split
    · rename_i e he
      intro h; cases h
      exact pel_suff (by omega) he
    · rename_i v hv
      obtain ⟨ex, m2⟩ := v
      simp only
      split <;> simp [pure, Except.pure]

theorem ps_len {f : Nat} {m : Mk.St} {s : Str} {m' : Mk.St}
    (h : Req.parseSpecifier f m = .ok (s, m')) : m'.rest.length ≤ m.rest.length := by
  simp only [Req.parseSpecifier] at h
  split at h
  · rename_i t m1 h1
    have := check_len h1
    have := ws_len m1
    simp only [bind, Except.bind] at h
    split at h
    · cases h
    · rename_i v hv
      obtain ⟨s2, m2⟩ := v
      have := vm_len _ _ _ _ _ hv
      have := ws_len m2
      simp only at h
      split at h
      · cases h
      · rename_i t3 m3 h3
        have := check_len h3
        cases h
        omega
  · have := ws_len m
    simp only [bind, Except.bind] at h
    split at h
    · cases h
    · rename_i v hv
      obtain ⟨s2, m2⟩ := v
      have := vm_len _ _ _ _ _ hv
      have := ws_len m2
      simp only [pure, Except.pure] at h
      cases h
      omega

theorem ps_suff {f : Nat} {m : Mk.St} (hf : m.rest.length < f) : Req.parseSpecifier f m ≠ .error .fuel := by
  simp only [Req.parseSpecifier]
  split
  · rename_i t m1 h1
    have := check_len h1
    have := ws_len m1
    simp only [bind, Except.bind]
    split
    · rename_i e he
      intro h; cases h
      exact vm_suff _ _ _ (by omega) he
    · rename_i v hv
      obtain ⟨s2, m2⟩ := v
      simp only
      split <;> simp [pure, Except.pure]
  · have := ws_len m
    simp only [bind, Except.bind]
    split
    · rename_i e he
      intro h; cases h
      exact vm_suff _ _ _ (by omega) he
    · simp [pure, Except.pure]

theorem prm_suff {f : Nat} {m : Mk.St} (hf : 2 * m.rest.length + 3 ≤ f) : Req.parseReqMarker f m ≠ .error .fuel := by
  simp only [Req.parseReqMarker]
  split
  · simp
  · rename_i t m1 h1
    have := checkR_len h1
    have hm := (mk_suff f).1 m1 (by omega)
    split
    · simp
    · rename_i he; exact absurd he hm
    · simp

theorem pd_suff {f : Nat} {m : Mk.St} (hf : 2 * m.rest.length + 3 ≤ f) : Req.parseDetails f m ≠ .error .fuel := by
  simp only [Req.parseDetails]
  split
  · rename_i t m1 h1
    have := checkR_len h1
    have := ws_len m1
    split
    · simp
    · rename_i url m2 h2
      have := checkR_len h2
      split
      · simp
      · split
        · simp
        · rename_i t3 m3 h3
          have := check_len h3
          split
          · simp
          · simp only [bind, Except.bind]
            split
            · rename_i e he
              intro h; cases h
              exact prm_suff (by omega) he
            · simp [pure, Except.pure]
  · simp only [bind, Except.bind]
    split
    · rename_i e he
      intro h; cases h
      exact ps_suff (by omega) he
    · rename_i v hv
      obtain ⟨spec, m1⟩ := v
      have := ps_len hv
      have := ws_len m1
      simp only
      split
      · simp [pure, Except.pure]
      · split
        · rename_i e he
          intro h; cases h
          exact prm_suff (by omega) he
        · simp [pure, Except.pure]

theorem pr_suff {f : Nat} {m : Mk.St} (hf : 2 * m.rest.length + 3 ≤ f) : Req.parseRequirement f m ≠ .error .fuel := by
  simp only [Req.parseRequirement]
  have := ws_len m
  split
  · simp
  · rename_i name m1 h1
    have := checkR_len h1
    have := ws_len m1
    simp only [bind, Except.bind]
    split
    · rename_i e he
      intro h; cases h
      exact pe_suff (by omega) he
    · rename_i v hv
      obtain ⟨ex, m2⟩ := v
      have := pe_len hv
      have := ws_len m2
      simp only
      split
      · rename_i e he
        intro h; cases h
        exact pd_suff (by omega) he
      · split <;> simp [pure, Except.pure]

end ReqFuel

theorem parseSource_ne_fuel (src : Str) : Req.parseSource src ≠ .error .fuel := by
  apply ReqFuel.pr_suff
  simp only [Mk.fuelFor]
  omega

end Src
