import PkgProofs.Props.Src.PlatEnv
import PkgProofs.Props.Src.Tags2
/-!
# Translated `tags._linux_platforms`, `tags._generic_platforms`, `tags.platform_tags` = the model (`PkgModel/Platform.lean`)

The callees (`_manylinux.platform_tags`, `_musllinux.platform_tags`, `mac_platforms`, `ios_platforms`) are proved in other
files; here their equations are explicit hypotheses (`…_of`), to be instantiated by the integrator.
`linux.split("_", 1)` under `linux.startswith("linux_")` gives `linux[6:]` as the second part because the first underscore
of the text is the one of the prefix (`split_linux`).
-/
namespace Src
open PyRt PyRx Py Plat Elf

theorem _linux_platforms_translated : Gen.PySrc._linux_platforms_supported = true := rfl
theorem _generic_platforms_translated : Gen.PySrc._generic_platforms_supported = true := rfl
theorem tags.platform_tags_translated : Gen.PySrc.tags.platform_tags_supported = true := rfl

/-! ### run-time pieces -/

/-- `s.split(c, 1)` when `s` starts with `p ++ [c]` and `c` does not occur in `p` -/
theorem splitOnMax_one_prefix (c : Nat) (p rest : Str) (hp : ∀ x ∈ p, x ≠ c) :
    splitOnMax c 1 (p ++ c :: rest) = [p, rest] := by
  induction p with
  | nil => simp [splitOnMax]
  | cons x xs ih =>
    have hx : (x == c) = false := by simpa using hp x (List.mem_cons_self ..)
    simp only [List.cons_append, splitOnMax, hx, Bool.false_eq_true, if_false,
      ih (fun y hy => hp y (List.mem_cons_of_mem _ hy))]

private theorem startsWith_iff_append (s p : Str) : startsWith s p = true → s = p ++ s.drop p.length := by
  induction p generalizing s with
  | nil => intro _; simp
  | cons x xs ih =>
    cases s with
    | nil => simp [startsWith]
    | cons c cs =>
      simp only [startsWith, Bool.and_eq_true, beq_iff_eq, List.length_cons, List.drop_succ_cons, List.cons_append]
      rintro ⟨rfl, h⟩
      rw [← ih cs h]

/-- `linux.split("_", 1)` under `linux.startswith("linux_")`: the part after the first underscore is `linux[6:]` -/
theorem split_linux (l : Str) (h : startsWith l sLinux_ = true) :
    str_split_max (.str l) (.str (ofString "_")) (.int 1) = .ok (.list [.str (ofString "linux"), .str (l.drop 6)]) := by
  have e := startsWith_iff_append l sLinux_ h
  have e' : l = ofString "linux" ++ 95 :: l.drop 6 := by
    rw [show sLinux_.length = 6 from rfl] at e
    exact e
  have := splitOnMax_one_prefix 95 (ofString "linux") (l.drop 6) (by decide)
  rw [← e'] at this
  simp [str_split_max, show ofString "_" = [95] from rfl, this]

@[simp] private theorem unpack2_list2 (a b : PyVal) : unpack2 (.list [a, b]) = .ok (a, b) := by rfl

theorem dict_get_single_str (k : Str) (v d : PyVal) (a : Str) :
    dict_get (.dict [(.str k, v)]) (.str a) d = .ok (if a == k then v else d) := by
  by_cases h : a = k
  · subst h; simp [dict_get, hashable, dictLookup]
  · have h1 : (a == k) = false := by simpa using h
    have h2 : (k == a) = false := by simpa using (fun e => h e.symm)
    simp [dict_get, hashable, dictLookup, h1, h2]

@[simp] private theorem iterate_ofStrs (l : List Str) : iterate (ofStrs l) = .ok (l.map .str) := by rfl

private theorem flatMap_single {α β : Type} (f : α → β) (l : List α) : l.flatMap (fun a => [f a]) = l.map f := by
  induction l with
  | nil => rfl
  | cons a as ih => simp only [List.flatMap_cons, List.map_cons, ih, List.singleton_append]

/-- a loop that appends per item and re-binds a second local to the item -/
theorem forIn_pair_append_ok {α β : Type} (l : List PyVal) (init : List α) (b0 : β)
    (f : PyVal → List α × β → M (ForInStep (List α × β))) (k : PyVal → List α) (g : PyVal → β)
    (h : ∀ x ∈ l, ∀ s, f x s = .ok (.yield (s.1 ++ k x, g x))) :
    forIn l (init, b0) f = (.ok (init ++ l.flatMap k, l.foldl (fun _ x => g x) b0) : M (List α × β)) := by
  induction l generalizing init b0 with
  | nil => simp
  | cons x xs ih =>
    simp only [List.forIn_cons, h x (List.mem_cons_self ..) (init, b0), ok_bind]
    rw [ih _ _ (fun y hy s => h y (List.mem_cons_of_mem _ hy) s)]
    simp

theorem _linux_platforms_of (env : Env) (cfg : LCfg) (getPlatform : Str) (is32 : Bool)
    (hg : env_call env "sysconfig.get_platform" [] = .ok (.str getPlatform))
    (hmany : ∀ archs : List Str, Gen.PySrc._manylinux.platform_tags env (ofStrs archs) = .ok (.iter ((manylinuxTags cfg archs).map .str)))
    (hmusl : ∀ archs : List Str, Gen.PySrc._musllinux.platform_tags env (ofStrs archs) = .ok (.iter ((musllinuxTags cfg archs).map .str))) :
    Gen.PySrc._linux_platforms env (.bool is32) = .ok (.iter ((linuxPlatforms cfg getPlatform is32).map .str)) := by
  unfold Gen.PySrc._linux_platforms linuxPlatforms
  simp only [hg, ok_bind, _normalize_string_eq_model, str_startswith_str, truthy_bool, show ofString "linux_" = sLinux_ from rfl]
  generalize Tags.normalizeString getPlatform = linux
  by_cases hs : startsWith linux sLinux_ = true
  · have hsp := split_linux linux hs
    have hsp1 := split_linux (ofString "linux_i686") (by decide)
    have hsp2 := split_linux (ofString "linux_armv8l") (by decide)
    simp only [hs, hsp, hsp1, hsp2, Bool.not_true, Bool.false_eq_true, if_false, ok_bind, unpack2_list2,
      dict_get_single_str, eq_str]
    have hconv : ∀ a : Str, (if (a == ofString "armv8l") = true then
          PyVal.list [PyVal.str (ofString "armv8l"), PyVal.str (ofString "armv7l")] else PyVal.list [PyVal.str a]) =
        ofStrs (if a == sArmv8l then [sArmv8l, sArmv7l] else [a]) := by
      intro a
      rw [show ofString "armv8l" = sArmv8l from rfl, show ofString "armv7l" = sArmv7l from rfl]
      split <;> rfl
    have hloop : ∀ (archs : List Str) (init : List PyVal) (b0 : PyVal),
        (forIn (archs.map PyVal.str) (init, b0) (fun __x3 __s => do
            let d ← format __x3
            pure (ForInStep.yield (__s.fst ++ [PyVal.str (sLinux_ ++ d)], __x3)) : PyVal → List PyVal × PyVal → M _)) =
          .ok (init ++ archs.map (fun a => PyVal.str (sLinux_ ++ a)), archs.foldl (fun _ x => PyVal.str x) b0) := by
      intro archs init b0
      rw [forIn_pair_append_ok _ _ _ _ (fun x => match x with | .str a => [PyVal.str (sLinux_ ++ a)] | _ => []) id]
      · simp only [List.flatMap_map, List.foldl_map, id, flatMap_single]
      · intro x hx s
        simp only [List.mem_map] at hx
        obtain ⟨a, _, rfl⟩ := hx
        simp
    simp only [hconv, hmany, hmusl, ok_bind, iterate_iter, iterate_ofStrs, hloop]
    have e1 : ofString "linux_x86_64" = sLinux_ ++ sX86_64 := by decide
    have e2 : ofString "linux_aarch64" = sLinux_ ++ sAarch64 := by decide
    have e3 : ofString "linux_i686" = sLinux_ ++ sI686 := by decide
    have e4 : ofString "linux_armv8l" = sLinux_ ++ sArmv8l := by decide
    simp only [e1, e2, e3, e4, pure_ok, List.nil_append, List.map_append, List.map_map, Function.comp_def]
    cases is32
    · simp
    · simp only [if_true]
      split
      · rfl
      · split <;> rfl
  · simp [hs]

/-! ### `_generic_platforms` -/

theorem _generic_platforms_eq_model (env : Env) (getPlatform : Str)
    (hg : env_call env "sysconfig.get_platform" [] = .ok (.str getPlatform)) :
    Gen.PySrc._generic_platforms env = .ok (.iter ((genericPlatforms getPlatform).map .str)) := by
  unfold Gen.PySrc._generic_platforms genericPlatforms
  simp only [hg, ok_bind, _normalize_string_eq_model, pure_ok, List.nil_append, List.map_cons, List.map_nil]

/-- the hypothesis is satisfiable: a one-row call table answering `sysconfig.get_platform()` with `"win-amd64"` -/
example : Gen.PySrc._generic_platforms [("sysconfig.get_platform", .list [row [] (.str (ofString "win-amd64"))])] =
    .ok (.iter [.str (ofString "win_amd64")]) :=
  _generic_platforms_eq_model _ (ofString "win-amd64") (by rfl)

/-! ### `platform_tags` -/

theorem tags.platform_tags_of (env : Env) (p : PCfg)
    (hs : env_call env "platform.system" [] = .ok (.str p.system))
    (hmac : Gen.PySrc.mac_platforms env .none .none = ofPlatResult (macPlatforms p.macVerStr p.macCpu p.macCompat0 p.is32 none none))
    (hios : Gen.PySrc.ios_platforms env .none .none = ofPlatResult (iosPlatforms p.iosRelease p.iosMultiarch none none))
    (hlin : Gen.PySrc._linux_platforms env (.bool p.is32) = .ok (.iter ((linuxPlatforms p.linux p.getPlatform p.is32).map .str)))
    (hgen : Gen.PySrc._generic_platforms env = .ok (.iter ((genericPlatforms p.getPlatform).map .str)))
    (h32 : env_get env "_32_BIT_INTERPRETER" = .ok (.bool p.is32)) :
    Gen.PySrc.tags.platform_tags env = ofPlatResult (platformTags p) := by
  unfold Gen.PySrc.tags.platform_tags platformTags
  simp only [hs, ok_bind, eq_str, show ofString "Darwin" = sDarwin from rfl, show ofString "iOS" = sIOS from rfl,
    show ofString "Linux" = sLinux from rfl, h32, hmac, hios, hlin, hgen]
  split
  · rfl
  · split
    · rfl
    · split <;> rfl

end Src
