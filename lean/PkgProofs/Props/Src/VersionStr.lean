import PkgModel.Generated.PySrc
import PkgModel.PyObj
import PkgProofs.Lemmas.PyObj
import PkgProofs.Lemmas.ScanTrim
import PkgProofs.Lemmas.SrcRobust
import PkgProofs.Lemmas.SrcLoops
import PkgProofs.Lemmas.SrcTrailing
/-!
# Translated source of `Version.__str__`, `.public`, `.base_version`, `.is_prerelease`, `_TrimmedRelease.release`
= the model's `Ver.str`, `Ver.public`, `Ver.base`, `Ver.isPre`, `trimRelease`

The methods read a `Version` object `ofVer cls v` (`PkgModel/PyObj.lean`) through the translated property getters
(`Version.epoch`, `.release`, `.pre`, `.post`, `.dev`, `.local`), which are proved first.
-/
namespace Src
open PyRt Py V

theorem Version.__str___translated : Gen.PySrc.Version.__str___supported = true := rfl
theorem Version.public_translated : Gen.PySrc.Version.public_supported = true := rfl
theorem Version.base_version_translated : Gen.PySrc.Version.base_version_supported = true := rfl
theorem Version.is_prerelease_translated : Gen.PySrc.Version.is_prerelease_supported = true := rfl
theorem _TrimmedRelease.release_translated : Gen.PySrc._TrimmedRelease.release_supported = true := rfl
theorem Version.getters_translated :
    (Gen.PySrc.Version.epoch_supported && Gen.PySrc.Version.release_supported && Gen.PySrc.Version.pre_supported &&
      Gen.PySrc.Version.post_supported && Gen.PySrc.Version.dev_supported && Gen.PySrc.Version.local_supported) = true := rfl

/-! ### the property getters -/

theorem Version.epoch_eq_model (cls : String) (v : Ver) : Gen.PySrc.Version.epoch (ofVer cls v) = .ok (.int v.epoch) := by
  simp [Gen.PySrc.Version.epoch]

theorem Version.release_eq_model (cls : String) (v : Ver) :
    Gen.PySrc.Version.release (ofVer cls v) = .ok (ofRelease v.release) := by
  simp [Gen.PySrc.Version.release]

theorem Version.pre_eq_model (cls : String) (v : Ver) : Gen.PySrc.Version.pre (ofVer cls v) = .ok (ofOptPre v.pre) := by
  simp [Gen.PySrc.Version.pre]

theorem Version.post_eq_model (cls : String) (v : Ver) : Gen.PySrc.Version.post (ofVer cls v) = .ok (ofOptNat v.post) := by
  cases h : v.post <;> simp [Gen.PySrc.Version.post, h, ofTagged, ofOptNat]

theorem Version.dev_eq_model (cls : String) (v : Ver) : Gen.PySrc.Version.dev (ofVer cls v) = .ok (ofOptNat v.dev) := by
  cases h : v.dev <;> simp [Gen.PySrc.Version.dev, h, ofTagged, ofOptNat]

/-- `str(x)` of a local segment -/
theorem str_lseg (s : LSeg) : str_ (ofLSeg s) = .ok (.str s.render) := by
  cases s <;> simp [ofLSeg, LSeg.render]

theorem genexp_str_local (l : List LSeg) :
    genexp (fun x => do PyRt.str_ x) (.tuple (l.map ofLSeg)) = .ok (.iter ((l.map LSeg.render).map .str)) := by
  rw [genexp_ok _ (fun x => match x with
      | .int i => .str (if i < 0 then 45 :: dec i.natAbs else dec i.toNat) | .str s => .str s | _ => .none) _ _ (by rfl)]
  · simp only [List.map_map]
    congr 2
    apply List.map_congr_left
    intro s _
    cases s <;> simp [ofLSeg, LSeg.render]
  · intro x hx
    simp only [List.mem_map] at hx
    obtain ⟨s, _, rfl⟩ := hx
    cases s <;> simp [ofLSeg, str_, format]

/-- `Version.local`; an empty tuple is falsy, so the model's `some ""` for `loc = some []` (which `Version()` never
produces: `V.WF`) would come out as `None` -/
theorem Version.local_eq_model (cls : String) (v : Ver) (h : v.loc ≠ some []) :
    Gen.PySrc.Version.local (ofVer cls v) = .ok (ofOptStr v.localStr) := by
  cases hl : v.loc with
  | none => simp [Gen.PySrc.Version.local, hl, ofLocal, Ver.localStr, ofOptStr]
  | some l =>
    have hne : l ≠ [] := by rintro rfl; exact h hl
    have ht : truthy (.tuple (l.map ofLSeg)) = true := by
      cases l with
      | nil => exact absurd rfl hne
      | cons a as => rfl
    simp only [Gen.PySrc.Version.local, getattr_ver_version, getattr_vt_local, ok_bind, hl, ofLocal, ht, if_true,
      genexp_str_local, str_join_iter, pure_ok, Ver.localStr, Option.map_some, ofOptStr]
    rfl

/-! ### `_TrimmedRelease.release` -/

/-- index of the last non-zero component -/
def lastNZ : List Nat → Option Nat
  | [] => none
  | x :: xs => match lastNZ xs with
    | some i => some (i + 1)
    | none => if x ≠ 0 then some 0 else none

/-- indices (from `k`) of the non-zero components: what `(index for index, val in enumerate(rel) if val)` yields -/
def nzIdx : Nat → List Nat → List Nat
  | _, [] => []
  | k, x :: xs => if x ≠ 0 then k :: nzIdx (k + 1) xs else nzIdx (k + 1) xs

theorem foldl_max_nzIdx (r : List Nat) : ∀ m k, m ≤ k →
    (nzIdx k r).foldl max m = match lastNZ r with | some i => k + i | none => m := by
  induction r with
  | nil => intro m k _; rfl
  | cons x xs ih =>
    intro m k hmk
    by_cases hx : x = 0
    · simp only [nzIdx, hx, ne_eq, not_true_eq_false, if_false, lastNZ]
      rw [ih m (k + 1) (by omega)]
      cases lastNZ xs with
      | none => rfl
      | some i => simp; omega
    · simp only [nzIdx, hx, ne_eq, not_false_eq_true, if_true, lastNZ, List.foldl_cons]
      rw [ih (max m k) (k + 1) (by omega)]
      cases lastNZ xs with
      | none => simp; omega
      | some i => simp; omega

theorem lastNZ_some_ne {r : List Nat} {i : Nat} (h : lastNZ r = some i) : r ≠ [] := by
  rintro rfl; simp [lastNZ] at h

theorem stripS_lastNZ (r : List Nat) :
    Pd.stripS r = match lastNZ r with | some i => r.take (i + 1) | none => [] := by
  induction r with
  | nil => rfl
  | cons x xs ih =>
    simp only [Pd.stripS, lastNZ]
    cases h : lastNZ xs with
    | none =>
      rw [h] at ih
      rw [ih]
      by_cases hx : x = 0 <;> simp [hx]
    | some i =>
      rw [h] at ih
      rw [ih]
      cases xs with
      | nil => exact absurd rfl (lastNZ_some_ne h)
      | cons y ys => simp [List.take]

theorem take_lastNZ (r : List Nat) : r.take ((lastNZ r).getD 0 + 1) = trimRelease r := by
  simp only [trimRelease, dtz_eq, stripS_lastNZ]
  cases h : lastNZ r with
  | none => rfl
  | some i =>
    simp only [Option.getD_some]
    cases hr : r with
    | nil => rw [hr] at h; simp [lastNZ] at h
    | cons x xs => simp [List.take]

theorem maxList_nats (l : List Nat) : ∀ m : Nat, maxList (.int m) (l.map ofNat) = .ok (.int (l.foldl max m : Nat)) := by
  induction l with
  | nil => intro m; rfl
  | cons x xs ih =>
    intro m
    simp only [List.map_cons, maxList, ofNat, cmp, asInt, Cmp.onInt, pure_ok, ok_bind, List.foldl_cons]
    by_cases h : (x : Int) > m
    · have h' : max m x = x := by omega
      simp only [h, decide_true, if_true, h']
      exact ih x
    · have h' : max m x = m := by omega
      simp only [h, decide_false, Bool.false_eq_true, if_false, h']
      exact ih m

theorem max_default_nats (l : List Nat) :
    max_default (.iter (l.map ofNat)) (.int 0) = .ok (.int (l.foldl max 0 : Nat)) := by
  cases l with
  | nil => rfl
  | cons x xs =>
    simp only [max_default, iterate_iter, ok_bind, List.map_cons]
    have := maxList_nats xs x
    simp only [ofNat] at this ⊢
    rw [this]
    simp

theorem enumerate_nzIdx (r : List Nat) : ∀ k,
    List.map (fun t => match t with | .tuple [i, _] => i | _ => .none)
      (List.filter (fun t => match t with | .tuple [_, v] => truthy v | _ => false) (enumerateFrom k (r.map ofNat)))
      = (nzIdx k r).map ofNat := by
  induction r with
  | nil => intro k; rfl
  | cons x xs ih =>
    intro k
    by_cases hx : x = 0
    · simp [enumerateFrom, nzIdx, hx, ofNat, ih (k + 1)]
    · have : ((x : Int) != 0) = true := by simp; omega
      simp [enumerateFrom, nzIdx, hx, ofNat, this, ih (k + 1)]

theorem nonzeros_eq (f c : PyVal → M PyVal) (r : List Nat)
    (hf : ∀ i v, f (.tuple [i, v]) = .ok i) (hc : ∀ i v, c (.tuple [i, v]) = .ok (.bool (truthy v))) :
    genexpIf f c (.iter (enumerateFrom 0 (r.map ofNat))) = .ok (.iter ((nzIdx 0 r).map ofNat)) := by
  have hall : ∀ k (l : List PyVal), ∀ t ∈ enumerateFrom k l, ∃ i v, t = .tuple [i, v] := by
    intro k l
    induction l generalizing k with
    | nil => intro t ht; simp [enumerateFrom] at ht
    | cons a as ih =>
      intro t ht
      simp only [enumerateFrom, List.mem_cons] at ht
      rcases ht with rfl | ht
      · exact ⟨_, _, rfl⟩
      · exact ih _ t ht
  simp only [genexpIf, iterate_iter, ok_bind]
  rw [filterM_ok _ (fun t => match t with | .tuple [_, v] => truthy v | _ => false)]
  · simp only [ok_bind]
    rw [mapM_ok _ (fun t => match t with | .tuple [i, _] => i | _ => .none)]
    · simp [enumerate_nzIdx]
    · intro t ht
      obtain ⟨i, v, rfl⟩ := hall 0 _ t (List.mem_filter.mp ht).1
      exact hf i v
  · intro t ht
    obtain ⟨i, v, rfl⟩ := hall 0 _ t ht
    exact hc i v

theorem release_lt_fuel (cls : String) (v : Ver) : v.release.length < 4 * sizeL [ofVer cls v] + 15 + 1 := by
  have h1 : sizeL (v.release.map ofNat) = v.release.length := sizeL_ofNats v.release
  simp only [sizeL, size, sizeF, ofVer, ofVersionTuple, ofRelease, h1]
  omega

/-- `_TrimmedRelease.release` on a `_TrimmedRelease` object: the model's `trimRelease` of its release.  Accepted spellings:
`max(indices of the non-zero components, default=0) + 1`, and an index `while` loop walking back from the end that keeps
at least one component (through `PyRt.while_fuel`). -/
theorem _TrimmedRelease.release_eq_model (v : Ver) :
    Gen.PySrc._TrimmedRelease.release (ofVer "_TrimmedRelease" v) = .ok (ofRelease (trimRelease v.release)) := by
  have hi : isinstance (ofVer "_TrimmedRelease" v) ["_TrimmedRelease"] = true := by
    simp [isinstance, className_ofVer]
  first
  | (
      unfold Gen.PySrc._TrimmedRelease.release
      simp only [hi, Bool.not_true, Bool.false_eq_true, if_false, Version.release_eq_model, ok_bind, ofRelease, enumerate,
        iterate_tuple, pure_ok]
      rw [nonzeros_eq _ _ _ (by intro i v; simp [unpack2, iterate]) (by intro i v; simp [unpack2, iterate])]
      simp only [ok_bind, max_default_nats, add_int]
      have h1 : ((List.foldl max 0 (nzIdx 0 v.release) : Nat) : Int) + 1 = ((List.foldl max 0 (nzIdx 0 v.release) + 1 : Nat) : Int) := by
        omega
      rw [h1, getslice_tuple_to, foldl_max_nzIdx _ 0 0 (Nat.le_refl 0)]
      congr 3
      rw [← take_lastNZ]
      cases lastNZ v.release <;> simp
      done
    )
  | (
      unfold Gen.PySrc._TrimmedRelease.release
      rw [fuelOf_succ']
      unfold Gen.PySrc._TrimmedRelease.release__fuel
      simp only [hi, Bool.not_true, Bool.false_eq_true, if_false, Version.release_eq_model, ok_bind, ofRelease, len_tuple,
        List.length_map]
      rw [(while_fuel _ (trC v.release) tzS (tzI v.release) tzM ?hstop ?hgo ?hI ?hμ (List.range _) (.int v.release.length) ?hinit ?hlen).1]
      case hstop =>
        intro i s d hs hc
        obtain ⟨k, hk, rfl⟩ := hs
        match k, hk, hc with
        | 0, _, _ => simp [gt, cmp, asInt, Cmp.onInt]
        | 1, _, _ => simp [gt, cmp, asInt, Cmp.onInt]
        | j + 2, hk, hc =>
          obtain ⟨x, hx⟩ : ∃ x, v.release[j + 1]? = some x := ⟨v.release[j + 1], List.getElem?_eq_getElem (by omega)⟩
          have hj : j + 1 < (v.release.map ofNat).length := by simp; omega
          have hg : getitem (PyVal.tuple (List.map ofNat v.release)) (PyVal.int ((j : Int) + 2 - 1)) = .ok (ofNat x) := by
            have e : (j : Int) + 2 - 1 = ((j + 1 : Nat) : Int) := by omega
            rw [e, getitem_tuple_nat _ _ hj]; simp [List.getD_eq_getElem?_getD, hx]
          rw [trC_succ] at hc
          simp only [List.getD_eq_getElem?_getD, hx, Option.getD_some] at hc
          have hx0 : ¬ x = 0 := by simpa using hc
          have hgt : (1 : Int) < (j : Int) + 2 := by omega
          simp [gt, cmp, asInt, Cmp.onInt, sub_int, hg, ofNat, hx0, hgt]
      case hgo =>
        intro i s d hs hc
        obtain ⟨k, hk, rfl⟩ := hs
        match k, hk, hc with
        | 0, _, hc => exact absurd hc (by simp [trC])
        | 1, _, hc => exact absurd hc (by simp [trC])
        | j + 2, hk, hc =>
          obtain ⟨x, hx⟩ : ∃ x, v.release[j + 1]? = some x := ⟨v.release[j + 1], List.getElem?_eq_getElem (by omega)⟩
          have hj : j + 1 < (v.release.map ofNat).length := by simp; omega
          have hg : getitem (PyVal.tuple (List.map ofNat v.release)) (PyVal.int ((j : Int) + 2 - 1)) = .ok (ofNat x) := by
            have e : (j : Int) + 2 - 1 = ((j + 1 : Nat) : Int) := by omega
            rw [e, getitem_tuple_nat _ _ hj]; simp [List.getD_eq_getElem?_getD, hx]
          rw [trC_succ] at hc
          simp only [List.getD_eq_getElem?_getD, hx, Option.getD_some] at hc
          have hx0 : x = 0 := by simpa using hc
          have hgt : (1 : Int) < (j : Int) + 2 := by omega
          simp [gt, cmp, asInt, Cmp.onInt, sub_int, hg, ofNat, hx0, hgt, tzS]
      case hI =>
        intro s hs hc
        obtain ⟨k, hk, rfl⟩ := hs
        match k, hk, hc with
        | 0, _, hc => exact absurd hc (by simp [trC])
        | 1, _, hc => exact absurd hc (by simp [trC])
        | j + 2, hk, _ => exact ⟨j + 1, by omega, tzS_succ (j + 1)⟩
      case hμ =>
        intro s hs hc
        obtain ⟨k, hk, rfl⟩ := hs
        match k, hk, hc with
        | 0, _, hc => exact absurd hc (by simp [trC])
        | 1, _, hc => exact absurd hc (by simp [trC])
        | j + 2, _, _ => rw [tzS_succ (j + 1)]; simp [tzM]
      case hinit => exact ⟨_, Nat.le_refl _, rfl⟩
      case hlen =>
        simp only [tzM, Int.toNat_natCast, List.length_range]
        exact release_lt_fuel _ v
      obtain ⟨j, hj1, hj2⟩ := tr_end v.release v.release.length v.release.length (Nat.le_refl _) (Nat.le_refl _)
      simp only [tzM, Int.toNat_natCast, hj1, ok_bind, Bool.not_true, Bool.false_eq_true, if_false, getslice_tuple_to, pure_ok,
        ← List.map_take, hj2, List.take_length]
    )

/-- the zero-argument `super()` in it refuses any other object (`TypeError`) -/
theorem _TrimmedRelease.release_other (cls : String) (v : Ver) (h : cls ≠ "_TrimmedRelease") :
    Gen.PySrc._TrimmedRelease.release (ofVer cls v) = .error "TypeError" := by
  have hi : isinstance (ofVer cls v) ["_TrimmedRelease"] = false := by
    simp [isinstance, className_ofVer, h]
  first
  | (unfold Gen.PySrc._TrimmedRelease.release
     simp [hi, typeError]
     done)
  | (unfold Gen.PySrc._TrimmedRelease.release
     rw [fuelOf_succ']
     unfold Gen.PySrc._TrimmedRelease.release__fuel
     simp [hi, typeError])

/-! ### `Version.__str__`, `.base_version`, `.public`, `.is_prerelease` -/

/-- `self.release` as `__str__` sees it: the run-time class decides (`_TrimmedRelease` overrides the property) -/
def releaseOf (cls : String) (v : Ver) : List Nat :=
  if cls = "_TrimmedRelease" then trimRelease v.release else v.release

/-- the version a `cls` object presents to `__str__` -/
def viewOf (cls : String) (v : Ver) : Ver := { v with release := releaseOf cls v }

theorem genexp_str_release (r : List Nat) :
    genexp (fun x => do PyRt.str_ x) (ofRelease r) = .ok (.iter ((r.map dec).map .str)) := by
  rw [genexp_ok _ (fun x => match x with | .int i => .str (if i < 0 then 45 :: dec i.natAbs else dec i.toNat) | _ => .none)
    _ _ (by rfl)]
  · simp [List.map_map, Function.comp_def, ofNat]
  · intro x hx
    simp only [List.mem_map] at hx
    obtain ⟨n, _, rfl⟩ := hx
    simp [ofNat, str_, format]

theorem release_dispatch (cls : String) (v : Ver) :
    Gen.PySrc.Version.release__dyn (ofVer cls v) = .ok (ofRelease (releaseOf cls v)) := by
  simp only [Gen.PySrc.Version.release__dyn, className_ofVer, releaseOf]
  by_cases h : cls = "_TrimmedRelease"
  · subst h; simp [_TrimmedRelease.release_eq_model]
  · simp [h, Version.release_eq_model]

theorem genexp_str_pre (p : PreL × Nat) :
    genexp (fun x => do PyRt.str_ x) (ofPre p) = .ok (.iter ([p.1.str, dec p.2].map .str)) := by
  simp [genexp, ofPre, mapM]

theorem Version.base_version_eq_model (cls : String) (v : Ver) :
    Gen.PySrc.Version.base_version (ofVer cls v) = .ok (.str (viewOf cls v).base) := by
  unfold Gen.PySrc.Version.base_version
  simp only [Version.epoch_eq_model, ok_bind, release_dispatch, map_, genexp_str_release, str_join_iter,
    eq_int, list_append_list, format_nat, format_str, pure_ok]
  by_cases he : v.epoch = 0
  · simp [he, Ver.base, viewOf, renderRelease, str_join, joinStrs, ofString]
  · have : ((v.epoch : Int) == 0) = false := by simp; omega
    simp [this, he, Ver.base, viewOf, renderRelease, str_join, joinStrs, ofString]

/-- `str(self)` for a `Version` (`cls = "Version"`) and for a `_TrimmedRelease` (its `release` is the trimmed one) -/
theorem Version.__str___eq_model (cls : String) (v : Ver) (h : v.loc ≠ some []) :
    Gen.PySrc.Version.__str__ (ofVer cls v) = .ok (.str (viewOf cls v).str) := by
  unfold Gen.PySrc.Version.__str__
  simp only [Version.epoch_eq_model, Version.pre_eq_model, Version.post_eq_model, Version.dev_eq_model,
    Version.local_eq_model cls v h, ok_bind, release_dispatch, map_, genexp_str_release, str_join_iter,
    eq_int, list_append_list, format_nat, format_str, pure_ok]
  have hj : ∀ l : List Str, str_join (.str (ofString "")) (.list (l.map .str)) = .ok (.str l.flatten) :=
    fun l => str_join_empty_list l
  have he : ((v.epoch : Int) == 0) = (v.epoch == 0) := by
    cases hv : v.epoch with
    | zero => rfl
    | succ k => simp; omega
  simp only [Ver.str, Ver.public, Ver.base, viewOf, he]
  have hl : ({ v with release := releaseOf cls v } : Ver).localStr = v.localStr := rfl
  rw [hl]
  cases hpre : v.pre <;> cases hpost : v.post <;> cases hdev : v.dev <;> cases hloc : v.localStr <;>
    by_cases h0 : v.epoch = 0 <;>
    simp [h0, ofOptPre, ofOptNat, ofOptStr, genexp_str_pre, str_join, joinStrs, renderRelease, ofString, PyRt.add,
      show ∀ p, isNone (ofPre p) = false from fun _ => rfl]

theorem Version.is_prerelease_eq_model (cls : String) (v : Ver) :
    Gen.PySrc.Version.is_prerelease (ofVer cls v) = .ok (.bool v.isPre) := by
  unfold Gen.PySrc.Version.is_prerelease
  simp only [Version.dev_eq_model, Version.pre_eq_model, ok_bind, pure_ok]
  cases hd : v.dev <;> cases hp : v.pre <;>
    simp [Ver.isPre, hd, hp, ofOptNat, ofOptPre, or_, is_not_none, show ∀ p, isNone (ofPre p) = false from fun _ => rfl]

theorem splitOnMax_head (c : Nat) (s : Str) : ∀ n, (splitOnMax c (n + 1) s).head? = (Py.splitOn c s).head? := by
  induction s with
  | nil => intro n; rfl
  | cons x xs ih =>
    intro n
    simp only [splitOnMax, Py.splitOn]
    by_cases hx : (x == c) = true
    · simp [hx]
    · have hx' : (x == c) = false := by simpa using hx
      simp only [hx', Bool.false_eq_true, if_false]
      have := ih n
      cases h1 : splitOnMax c (n + 1) xs <;> cases h2 : Py.splitOn c xs <;> simp_all

/-- `Version.public` = `str(self).split("+", 1)[0]`, for a `Version` -/
theorem Version.public_eq_model (v : Ver) (h : WF v) :
    Gen.PySrc.Version.public (ofVer "Version" v) = .ok (.str v.public) := by
  have hloc : v.loc ≠ some [] := by
    intro e
    simp [WF, Ver.wf, e, locWF] at h
  unfold Gen.PySrc.Version.public
  have hv : viewOf "Version" v = v := by simp [viewOf, releaseOf]
  have hs := V.public_is_split v h
  rw [← splitOnMax_head 43 v.str 0] at hs
  -- `str(self).split("+", 1)[0]` and `str(self).partition("+")[0]` are the same piece
  obtain ⟨pa, psep, pb, hpart, hhead⟩ := str_partition_head v.str 43
  have hpa : pa = v.public := by
    rw [hhead] at hs; exact Option.some.inj hs
  have hsplit : splitOnMax 43 1 v.str = pa :: (splitOnMax 43 1 v.str).tail := by
    cases hl : splitOnMax 43 1 v.str with
    | nil => rw [hl] at hhead; simp at hhead
    | cons a as => rw [hl] at hhead; simp at hhead; simp [hhead]
  have h10 : ((1 : Int) < 0) = False := by simp
  simp only [Version.__str___eq_model "Version" v hloc, hv, ok_bind, str_split_max, ofString,
    show (String.toList "+").map Char.toNat = [43] from rfl, h10, if_false, pure_ok,
    show (1 : Int).toNat = 1 from rfl, hpart, unpack3, iterate_tuple]
  first
  | (rw [hsplit]; simp [hpa]; done)
  | (simp [hpa]; done)

end Src
