import PkgProofs.Props.Src.SSetMember
/-!
# Translated source of the reading methods of `SpecifierSet` = the model

`prereleases` (getter and setter), `__str__`, `__hash__`, `__len__`, `__iter__`, `contains`, `__contains__` against
`SSet.SpecSet.prereleases/str/len/contains`, for every iteration order `it` of the frozenset that an environment can
prescribe (`Src.Ordered`), and `Src.ordered_of_perm`: every permutation of the members is prescribed by some environment.
-/
set_option linter.unusedSimpArgs false   -- x8: the simp sets list the lemmas of every accepted spelling
namespace Src
open PyRt Py V S
open SSet (Member SpecSet CKey key canonical_isOk)

theorem read_translated :
    (Gen.PySrc.SpecifierSet.prereleases_supported && Gen.PySrc.SpecifierSet.prereleases__set_supported &&
     Gen.PySrc.SpecifierSet.__str___supported && Gen.PySrc.SpecifierSet.__hash___supported &&
     Gen.PySrc.SpecifierSet.__len___supported && Gen.PySrc.SpecifierSet.__iter___supported &&
     Gen.PySrc.SpecifierSet.contains_supported && Gen.PySrc.SpecifierSet.__contains___supported) = true := rfl

/-! ### the iteration order -/

theorem eq_ofOptBool_self (b : Option Bool) : PyVal.eq (ofOptBool b) (ofOptBool b) = true := by
  cases b <;> simp [ofOptBool, PyVal.eq]

/-- structural `==` is reflexive on `Specifier` records -/
theorem eq_ofMember_self (m : Member) : PyVal.eq (ofMember m) (ofMember m) = true := by
  simp [ofMember, ofSpec, PyVal.eq, eqFields, eqList, eq_ofOptBool_self]

/-- a priority list that is a rearrangement of the members (modulo structural `==`) is the order -/
theorem orderBy_of_mem (prio l : List PyVal) (hrefl : ∀ p ∈ prio, PyVal.eq p p = true)
    (h1 : ∀ p ∈ prio, p ∈ l) (h2 : ∀ x ∈ l, x ∈ prio) : PySet.orderBy prio l = prio := by
  unfold PySet.orderBy
  have e1 : prio.filter (fun p => l.any fun x => PyVal.eq p x) = prio := by
    rw [List.filter_eq_self]
    intro p hp
    exact List.any_eq_true.mpr ⟨p, h1 p hp, hrefl p hp⟩
  have e2 : l.filter (fun x => !(prio.any fun p => PyVal.eq p x)) = [] := by
    rw [List.filter_eq_nil_iff]
    intro x hx
    have : (prio.any fun p => PyVal.eq p x) = true :=
      List.any_eq_true.mpr ⟨x, h2 x hx, hrefl x (h2 x hx)⟩
    simp [this]
  rw [e1, e2, List.append_nil]

/-- every permutation of the members is the iteration order that some environment prescribes -/
theorem ordered_of_perm (T : SpecSet) (it : List Member) (h : it.Perm T.specs) : ∃ env, Ordered env T it := by
  refine ⟨[(PySet.orderKey, .list (it.map ofMember))], ?_⟩
  unfold Ordered PySet.order
  simp only [lookupField_cons, beq_self_eq_true, if_true]
  apply orderBy_of_mem
  · intro p hp
    obtain ⟨m, _, rfl⟩ := List.mem_map.mp hp
    exact eq_ofMember_self m
  · intro p hp
    obtain ⟨m, hm, rfl⟩ := List.mem_map.mp hp
    exact List.mem_map.mpr ⟨m, h.mem_iff.mp hm, rfl⟩
  · intro p hp
    obtain ⟨m, hm, rfl⟩ := List.mem_map.mp hp
    exact List.mem_map.mpr ⟨m, h.mem_iff.mpr hm, rfl⟩

/-! ### the primitives on the `_specs` field -/

theorem iter_ord_ofSet (env : Env) (T : SpecSet) (it : List Member) (h : Ordered env T it) :
    PySet.iter_ord env (ofSet T.specs) = .ok (.iter (it.map ofMember)) := by
  simp only [PySet.iter_ord, setItems_ofSet, pure_ok]
  rw [h]

@[simp] theorem set_truthy_ofSet (l : List Member) : PySet.set_truthy (ofSet l) = !l.isEmpty := by
  simp [PySet.set_truthy]

@[simp] theorem set_len_ofSet (l : List Member) : PySet.set_len (ofSet l) = .ok (.int l.length) := by
  simp [PySet.set_len]

/-- `any(s.prereleases for s in …)` over member objects -/
theorem anyM_prereleases (it : List Member) :
    anyM (fun s => Gen.PySrc.Specifier.prereleases s) (it.map ofMember) = SSet.anyPre it := by
  induction it with
  | nil => rfl
  | cons m r ih =>
    simp only [List.map_cons, anyM, SSet.anyPre, ofMember, Specifier.prereleases_eq_model]
    cases m.1.prereleases m.2 with
    | error e => rfl
    | ok b =>
      cases b
      · simpa [Except.map, ofMember] using ih
      · simp [Except.map]

/-- `all(s.contains(item, prereleases) for s in …)` over member objects -/
theorem allM_contains (c : Ver) (hc : V.WF c) (pre : Option Bool) (it : List Member) :
    allM (fun s => Gen.PySrc.Specifier.contains s (ofVer "Version" c) (ofOptBool pre)) (it.map ofMember) =
      SSet.allContain c pre it := by
  induction it with
  | nil => rfl
  | cons m r ih =>
    simp only [List.map_cons, allM, SSet.allContain, ofMember, Specifier.contains_eq_model _ _ c hc]
    cases m.1.contains m.2 c pre with
    | error e => rfl
    | ok b =>
      cases b
      · simp [Except.map]
      · simpa [Except.map, ofMember] using ih

/-! ### the reading methods -/

theorem SpecifierSet.prereleases_eq_model (env : Env) (T : SpecSet) (it : List Member) (h : Ordered env T it) :
    Gen.PySrc.SpecifierSet.prereleases env (ofSSet T) = (T.prereleases it).map ofOptBool := by
  unfold Gen.PySrc.SpecifierSet.prereleases SpecSet.prereleases
  simp only [getattr_sset_pre, getattr_sset_specs, ok_bind, iter_ord_ofSet env T it h, set_truthy_ofSet,
    any_gen, iterate_iter, anyM_prereleases]
  obtain ⟨specs, pre⟩ := T
  cases pre with
  | some b => simp [ofOptBool, Except.map]
  | none =>
    simp only [ofOptBool, isNone_none, Bool.not_true, Bool.false_eq_true, if_false, Bool.not_not]
    cases specs.isEmpty
    · simp only [Bool.false_eq_true, if_false]
      cases SSet.anyPre it <;> rfl
    · rfl

theorem SpecifierSet.prereleases__set_eq_model (T : SpecSet) (b : Option Bool) :
    Gen.PySrc.SpecifierSet.prereleases__set (ofSSet T) (ofOptBool b) = .ok (ofSSet { T with pre := b }) := by
  rfl

theorem SpecifierSet.__hash___eq_model (T : SpecSet) :
    Gen.PySrc.SpecifierSet.__hash__ (ofSSet T) = .ok (.tuple [.str (ofString "__hash__"), ofSet T.specs]) := by
  simp [Gen.PySrc.SpecifierSet.__hash__, hash_sym]

theorem SpecifierSet.__len___eq_model (T : SpecSet) :
    Gen.PySrc.SpecifierSet.__len__ (ofSSet T) = .ok (.int T.len) := by
  simp [Gen.PySrc.SpecifierSet.__len__, SpecSet.len]

theorem SpecifierSet.__iter___eq_model (env : Env) (T : SpecSet) (it : List Member) (h : Ordered env T it) :
    Gen.PySrc.SpecifierSet.__iter__ env (ofSSet T) = .ok (.iter (it.map ofMember)) := by
  simp [Gen.PySrc.SpecifierSet.__iter__, iter_ord_ofSet env T it h]

theorem strsOf_strs (l : List Str) : PySet.strsOf (l.map .str) = some l := by
  induction l with
  | nil => rfl
  | cons x xs ih => simp [PySet.strsOf, ih]

@[simp] theorem setItems_iter (l : List PyVal) : PyRx.setItems (.iter l) = Option.none := by rfl

/-- `sorted(<iterator of strings>)` -/
theorem sorted_strs (l : List Str) :
    PySet.sorted_ (.iter (l.map .str)) = .ok (.list ((sortBy strLe l).map .str)) := by
  simp [PySet.sorted_, strsOf_strs]

/-- `(str(s) for s in …)` over member objects -/
theorem mapM_str (it : List Member) :
    mapM (fun s => Gen.PySrc.Specifier.__str__ s) (it.map ofMember) = .ok ((it.map fun m => m.1.str).map .str) := by
  induction it with
  | nil => rfl
  | cons m r ih =>
    simp only [List.map_cons, mapM, ih, ok_bind, pure_ok]
    simp [ofMember, Specifier.__str___eq_model]

theorem SpecifierSet.__str___eq_model (env : Env) (T : SpecSet) (it : List Member) (h : Ordered env T it) :
    Gen.PySrc.SpecifierSet.__str__ env (ofSSet T) = .ok (.str (T.str it)) := by
  simp only [Gen.PySrc.SpecifierSet.__str__, getattr_sset_specs, ok_bind, iter_ord_ofSet env T it h, genexp,
    iterate_iter, mapM_str, pure_ok, sorted_strs, str_join_list, SpecSet.str]
  rfl

/-- `if prereleases is None: prereleases = self.prereleases`, then the rest of the function -/
theorem resolve_jp (env : Env) (T : SpecSet) (it : List Member) (h : Ordered env T it) (pre : Option Bool)
    (jp : PyVal → M PyVal) :
    (if isNone (ofOptBool pre) = true then do
        let p ← Gen.PySrc.SpecifierSet.prereleases env (ofSSet T)
        jp p
      else jp (ofOptBool pre)) =
      (match T.resolve it pre with
       | .ok p => jp (ofOptBool p)
       | .error e => .error e) := by
  cases pre with
  | some b => simp [ofOptBool, SpecSet.resolve]
  | none =>
    simp only [ofOptBool, isNone_none, if_true, SpecSet.resolve, SpecifierSet.prereleases_eq_model env T it h]
    cases T.prereleases it <;> rfl

theorem truthy_ofOptBool (p : Option Bool) : truthy (ofOptBool p) = SSet.truthy p := by
  rcases p with _ | _ | _ <;> rfl

/-- `all(s.contains(item, prereleases) for s in <the members in order>)` -/
theorem all_gen_contains (c : Ver) (hc : V.WF c) (p : Option Bool) (it : List Member) :
    all_gen (fun s => Gen.PySrc.Specifier.contains s (ofVer "Version" c) (ofOptBool p)) (.iter (it.map ofMember)) =
      Except.map PyVal.bool (SSet.allContain c p it) := by
  simp only [all_gen, iterate_iter, ok_bind, allM_contains c hc]
  cases SSet.allContain c p it <;> rfl

theorem isinstance_ofVer (c : Ver) : isinstance (ofVer "Version" c) ["Version", "_TrimmedRelease"] = true := by
  simp [isinstance, className_ofVer]

theorem SpecifierSet.contains_eq_model (env : Env) (T : SpecSet) (it : List Member) (h : Ordered env T it)
    (c : Ver) (hc : V.WF c) (pre inst : Option Bool) :
    Gen.PySrc.SpecifierSet.contains env (ofSSet T) (ofVer "Version" c) (ofOptBool pre) (ofOptBool inst) =
      (T.contains it c pre (inst.getD false)).map PyVal.bool := by
  unfold Gen.PySrc.SpecifierSet.contains SpecSet.contains
  simp only [isinstance_ofVer, _coerce_version_eq_model, ok_bind, truthy_bool, Bool.not_true, Bool.false_eq_true, if_false,
    resolve_jp env T it h]
  cases T.resolve it pre with
  | error e => rfl
  | ok p =>
    simp only [truthy_ofOptBool, Version.is_prerelease_eq_model, Version.base_version_eq_model,
      view_version, ok_bind, mkVersion_eq_model, getattr_sset_specs, iter_ord_ofSet env T it h,
      all_gen_contains c hc, S.version]
    cases hs : scan c.base with
    | none =>
      rcases inst with _ | _ | _ <;> cases c.isPre <;> cases SSet.truthy p <;>
        simp [SSet.truthy, ofOptBool, Except.map]
    | some v =>
      simp only [Except.map, ok_bind, all_gen_contains v (V.scan_wf _ v hs)]
      rcases inst with _ | _ | _ <;> cases c.isPre <;> cases SSet.truthy p <;>
        simp [SSet.truthy, ofOptBool]

theorem isinstance_str_version (s : Str) : isinstance (.str s) ["Version", "_TrimmedRelease"] = false := by
  simp [isinstance]

/-- a string candidate is parsed first (`InvalidVersion` when it is no version) -/
theorem SpecifierSet.contains_str (env : Env) (T : SpecSet) (it : List Member) (h : Ordered env T it)
    (pre inst : Option Bool) (s : Str) :
    Gen.PySrc.SpecifierSet.contains env (ofSSet T) (.str s) (ofOptBool pre) (ofOptBool inst) =
      (do let c ← S.version s; T.contains it c pre (inst.getD false)).map PyVal.bool := by
  cases hs : scan s with
  | none =>
    unfold Gen.PySrc.SpecifierSet.contains
    simp only [isinstance_str_version, _coerce_version_str, truthy_bool, Bool.not_false, if_true, mkVersion_eq_model,
      S.version, hs]
    rfl
  | some c =>
    have hc := V.scan_wf s c hs
    have key := SpecifierSet.contains_eq_model env T it h c hc pre inst
    unfold Gen.PySrc.SpecifierSet.contains at key ⊢
    simp only [isinstance_ofVer, isinstance_str_version, _coerce_version_eq_model, _coerce_version_str, Except.map,
      truthy_bool, Bool.not_true, Bool.not_false, Bool.false_eq_true,
      if_true, if_false, mkVersion_eq_model, S.version, hs, ok_bind] at key ⊢
    exact key

theorem SpecifierSet.__contains___eq_model (env : Env) (T : SpecSet) (it : List Member) (h : Ordered env T it)
    (c : Ver) (hc : V.WF c) :
    Gen.PySrc.SpecifierSet.__contains__ env (ofSSet T) (ofVer "Version" c) = (T.contains it c none false).map PyVal.bool := by
  have key := SpecifierSet.contains_eq_model env T it h c hc none none
  simp only [ofOptBool, Option.getD_none] at key
  unfold Gen.PySrc.SpecifierSet.__contains__
  first
    | exact key
    | (rw [key]; cases T.contains it c none false <;> rfl)

end Src
