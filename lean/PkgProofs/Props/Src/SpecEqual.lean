import PkgModel.Generated.PySrc
import PkgModel.Specifier
import PkgProofs.Lemmas.PyStr
import PkgProofs.Lemmas.ScanStr
import PkgProofs.Props.Src.SpecCompare
import PkgProofs.Props.Src.Specifier
import PkgProofs.Lemmas.SrcRobust
import PkgProofs.Lemmas.SrcLoops
/-!
# Translated source of `_version_split`, `canonicalize_version`, `Specifier._compare_equal`, `_compare_not_equal`,
`_compare_compatible` = the model (`S.versionSplit`, `V.canonicalizeVersion`, `S.compareEqual`, …)
-/
namespace Src
open PyRt Py V S

theorem equal_translated :
    (Gen.PySrc._version_split_supported && Gen.PySrc.canonicalize_version__str_supported &&
     Gen.PySrc.canonicalize_version__object_supported && Gen.PySrc.Specifier._compare_equal_supported &&
     Gen.PySrc.Specifier._compare_not_equal_supported && Gen.PySrc.Specifier._compare_compatible_supported) = true := rfl

/-! ### `_version_split` -/

theorem rx_prefix_eq (item : Str) :
    rx_prefix item = (S.prefixRegex item).map (fun ab => [PyVal.str ab.1, PyVal.str ab.2]) := by
  unfold rx_prefix S.prefixRegex
  simp only
  generalize (if (item.getLast? == some 10) = true then item.dropLast else item) = it
  cases (spanDigits it).1.isEmpty
  · simp only [Bool.false_eq_true, if_false]
    generalize (spanDigits it).2 = r
    have key : ∀ (o1 o2 : Option (Str × Str)), o1 = o2 →
        (match o1 with
          | none => (none : Option (List PyVal))
          | some (l, t) =>
            if ((spanDigits t).1.isEmpty || !(spanDigits t).2.isEmpty) = true then none
            else some [PyVal.str (spanDigits it).1, PyVal.str (l ++ (spanDigits t).1)]) =
        Option.map (fun ab => [PyVal.str ab.1, PyVal.str ab.2])
          (match o2 with
            | none => (none : Option (Str × Str))
            | some (l, t) =>
              if ((spanDigits t).1.isEmpty || !(spanDigits t).2.isEmpty) = true then none
              else some ((spanDigits it).1, l ++ (spanDigits t).1)) := by
      intro o1 o2 h
      subst h
      cases o1 with
      | none => rfl
      | some lt =>
        obtain ⟨l, t⟩ := lt
        simp only
        cases ((spanDigits t).1.isEmpty || !(spanDigits t).2.isEmpty) <;> rfl
    apply key
    rfl
  · rfl

theorem re_search_prefix (s : Str) :
    re_search "^([0-9]+)((?:a|b|c|rc)[0-9]+)$" (.str s) =
      .ok (match S.prefixRegex s with
        | some (a, b) => .obj "re.Match" [("groups", .tuple [.str a, .str b])]
        | none => .none) := by
  simp only [re_search, rx_prefix_eq, pure_ok]
  cases S.prefixRegex s <;> rfl

/-- what one item of `rest.split(".")` adds to the components -/
def splitItem (item : Str) : List Str :=
  match S.prefixRegex item with | some (a, b) => [a, b] | none => [item]

/-- the loop of `_version_split` followed by the `return`, over an abstract body that does what one iteration does to the
list being built (`proj`: where that list lives in the loop state) -/
theorem version_split_bind {σ : Type} (proj : σ → PyVal) (body : PyVal → σ → M (ForInStep σ)) (k : σ → M PyVal)
    (hstep : ∀ (item : Str) (s : σ) (res : List Str), proj s = .list (res.map .str) →
      ∃ s', body (.str item) s = .ok (.yield s') ∧ proj s' = .list ((res ++ splitItem item).map .str))
    (hk : ∀ s' l, proj s' = .list l → k s' = .ok (.list l)) :
    ∀ (items : List Str) (s : σ) (res : List Str), proj s = .list (res.map .str) →
      (forIn (items.map PyVal.str) s body >>= k) = .ok (.list ((res ++ items.flatMap splitItem).map .str)) := by
  intro items
  induction items with
  | nil => intro s res hs; simp [hk s _ hs]
  | cons x xs ih =>
    intro s res hs
    obtain ⟨s', h1, h2⟩ := hstep x s res hs
    have := ih s' _ h2
    simp only [List.map_cons, List.forIn_cons, h1, ok_bind, List.flatMap_cons]
    simpa [List.append_assoc] using this

/-- `_version_split(version)` for every string.  The loop is handed to `version_split_bind`: the proof names neither its
body nor the number of its mutable locals (the list being built is the one declared last). -/
theorem _version_split_eq_model (s : Str) :
    Gen.PySrc._version_split (.str s) = .ok (ofStrs (S.versionSplit s)) := by
  unfold Gen.PySrc._version_split
  simp only [show ofString "!" = [33] from rfl, show ofString "." = [46] from rfl, str_rpartition_single, ok_bind,
    unpack3, iterate_tuple, pure_bind, list_append_list, List.nil_append, str_split_single, iterate_list]
  have hfin : S.versionSplit s = [if (S.rpartition 33 s).1.isEmpty then [48] else (S.rpartition 33 s).1] ++
      (Py.splitOn 46 (S.rpartition 33 s).2.2).flatMap splitItem := by
    simp only [S.versionSplit, splitItem]; rfl
  rw [hfin]
  cases hh : (S.rpartition 33 s).1 <;>
    simp only [or_, truthy_str, List.isEmpty_nil, List.isEmpty_cons, Bool.not_true, Bool.not_false, Bool.false_eq_true, if_true, if_false,
      pure_ok, ok_bind, show ofString "0" = [48] from rfl] <;>
    (refine version_split_bind LastPy.last _ _ ?_ ?_ _ _ [_] rfl
     · intro item st res hst
       simp only [LastPy.last] at hst
       simp only [re_search_prefix, splitItem, ok_bind]
       cases hp : S.prefixRegex item with
       | none =>
         src_simp [hst, list_append_list, LastPy.last]
       | some ab =>
         obtain ⟨a, b⟩ := ab
         src_simp [hst, match_groups_match, list_extend_list_tuple, list_extend_list_list, unpack2, iterate_tuple, LastPy.last,
           show ∀ c f, isNone (PyVal.obj c f) = false from fun _ _ => rfl]
     · intro s' l hs'
       simp only [LastPy.last] at hs'
       simp [hs'])

/-! ### `canonicalize_version` (the two `functools.singledispatch` implementations) -/

/-- an escaping exception class or a string, as `Option` in the model -/
def ofCanon : Option Str → M PyVal
  | some r => .ok (.str r)
  | none => .error "InvalidVersion"

theorem mkTrimmed (s : Str) :
    mkVersion "_TrimmedRelease" (.str s) = (match scan s with | some w => .ok (ofVer "_TrimmedRelease" w) | none => .error "InvalidVersion") := by
  simp only [mkVersion]; cases scan s <;> rfl

theorem canonicalize_version__object_eq_model (v : Ver) (h : v.loc ≠ some []) (strip : Bool) :
    Gen.PySrc.canonicalize_version__object (ofVer "Version" v) (.bool strip) = ofCanon (v.canon strip) := by
  unfold Gen.PySrc.canonicalize_version__object
  cases strip with
  | false => simp [Version.__str___eq_model "Version" v h, view_version, Ver.canon, ofCanon]
  | true =>
    simp only [truthy_bool, if_true, Version.__str___eq_model "Version" v h, view_version, ok_bind, mkTrimmed, Ver.canon]
    cases hs : scan v.str with
    | none => rfl
    | some w =>
      have hw : w.loc ≠ some [] := wf_loc (scan_wf _ _ hs)
      simp [Version.__str___eq_model "_TrimmedRelease" w hw, viewOf, releaseOf, ofCanon]

theorem canonicalize_version__str_eq_model (s : Str) (strip : Bool) :
    Gen.PySrc.canonicalize_version__str (.str s) (.bool strip) = ofCanon (canonicalizeVersion s strip) := by
  unfold Gen.PySrc.canonicalize_version__str
  simp only [mkVersion_eq_model, S.version, canonicalizeVersion]
  cases hs : scan s with
  | none =>
    rfl
  | some v =>
    have hv : v.loc ≠ some [] := wf_loc (scan_wf _ _ hs)
    have h := canonicalize_version__object_eq_model v hv strip
    simp only [Except.map, ok_bind]
    show Gen.PySrc.canonicalize_version__object (ofVer "Version" v) (PyVal.bool strip) = _
    rw [h]

/-! ### `Specifier._compare_equal` / `_compare_not_equal` -/

/-- a well-formed local label renders to a non-empty string, so `if not spec_version.local` is `loc is None` -/
theorem local_truthy (v : Ver) (h : WF v) : truthy (ofOptStr v.localStr) = !v.loc.isNone := by
  cases hl : v.loc with
  | none => simp [Ver.localStr, hl, ofOptStr]
  | some l =>
    simp only [Ver.localStr, hl, Option.map_some, ofOptStr, truthy_str, Option.isNone_some, Bool.not_false]
    simp only [WF, Ver.wf, hl, locWF, Bool.and_eq_true] at h
    obtain ⟨_, hne, hall⟩ := h
    cases l with
    | nil => simp at hne
    | cons a as =>
      have ha : a.render ≠ [] := by
        have := hall
        simp only [List.all_cons, Bool.and_eq_true] at this
        cases a with
        | num n =>
          simp only [LSeg.render]
          exact Py.dec_ne_nil n
        | str s =>
          simp only [LSeg.render]
          have h1 := this.1
          simp only [segWF, Bool.and_eq_true] at h1
          intro e; simp [e] at h1
      cases as with
      | nil => simpa [Py.join] using ha
      | cons b bs =>
        simp only [List.map_cons, Py.join]
        cases hr : a.render with
        | nil => exact absurd hr ha
        | cons c cs => simp

theorem canon_str_nostrip (s : Str) :
    Gen.PySrc.canonicalize_version__str (.str s) (.bool false) = (S.canonNoStrip s).map PyVal.str := by
  rw [canonicalize_version__str_eq_model, S.canonNoStrip]
  cases canonicalizeVersion s false <;> rfl

theorem pad_first (l r : List Str) :
    (do let x ← Gen.PySrc._pad_version (ofStrs l) (ofStrs r); PyRt.unpack2 x) =
      .ok (ofStrs (S.padVersion l r).1, ofStrs (S.padVersion l r).2) := by
  rw [_pad_version_eq_model]; rfl

/-- `Specifier._compare_equal(prospective, spec)` -/
theorem Specifier._compare_equal_eq_model (self : PyVal) (p : Ver) (hp : WF p) (spec : Str) :
    Gen.PySrc.Specifier._compare_equal self (ofVer "Version" p) (.str spec) = (S.compareEqual p spec).map PyVal.bool := by
  unfold Gen.PySrc.Specifier._compare_equal S.compareEqual
  simp only [show ofString ".*" = [46, 42] from rfl, str_endswith_str, ok_bind, truthy_bool]
  cases hw : Py.endsWith spec [46, 42]
  · -- plain equality
    simp only [Bool.false_eq_true, if_false, mkVersion_eq_model]
    cases hs : S.version spec with
    | error e => rfl
    | ok sv =>
      have hsv : WF sv := by
        simp only [S.version] at hs
        cases h : scan spec with
        | none => rw [h] at hs; simp at hs
        | some w => rw [h] at hs; simp only [Except.ok.injEq] at hs; subst hs; exact scan_wf _ _ h
      simp only [Except.map, ok_bind, Version.local_eq_model "Version" sv (wf_loc hsv), local_truthy sv hsv, Bool.not_not,
        Version.public_eq_model p hp, mkVersion_eq_model]
      cases hl : sv.loc.isNone
      · simp [_BaseVersion.__eq___eq_model _ _ versionCls, eqResult, bind, Except.bind, pure, Except.pure]
      · cases hpp : S.version p.public with
        | error e => simp [bind, Except.bind]
        | ok pp => simp [_BaseVersion.__eq___eq_model _ _ versionCls, eqResult, bind, Except.bind, pure, Except.pure]
  · -- prefix match
    simp only [if_true, Version.public_eq_model p hp, ok_bind, canon_str_nostrip]
    have hsl : getslice (PyVal.str spec) PyVal.none (PyVal.int (-2)) = .ok (.str (spec.take (spec.length - 2))) :=
      getslice_str_neg spec 2 (by omega)
    simp only [hsl, ok_bind, canon_str_nostrip]
    cases hnp : S.canonNoStrip p.public with
    | error e => rfl
    | ok np =>
      cases hns : S.canonNoStrip (spec.take (spec.length - 2)) with
      | error e => rfl
      | ok ns =>
        have hv1 := _version_split_eq_model ns
        have hv2 := _version_split_eq_model np
        have hpd := _pad_version_eq_model (versionSplit np) (versionSplit ns)
        simp only [ofStrs] at hv1 hv2 hpd
        simp only [Except.map, className_str, beq_self_eq_true, if_true, ok_bind, hv1, hv2, hpd, unpack2, iterate_tuple,
          pure_ok, len_list, List.length_map, getslice_list_to, PyRt.eq, PyVal.eq, ← List.map_take, eqList_strs]

/-- `Specifier._compare_not_equal(prospective, spec)` -/
theorem Specifier._compare_not_equal_eq_model (self : PyVal) (p : Ver) (hp : WF p) (spec : Str) :
    Gen.PySrc.Specifier._compare_not_equal self (ofVer "Version" p) (.str spec) = (S.compareNotEqual p spec).map PyVal.bool := by
  unfold Gen.PySrc.Specifier._compare_not_equal S.compareNotEqual
  rw [Specifier._compare_equal_eq_model self p hp spec]
  cases S.compareEqual p spec <;> simp [Except.map, bind, Except.bind, pure, Except.pure]

theorem takewhile_not_suffix (l : List Str) :
    takewhile Gen.PySrc._is_not_suffix (.list (l.map .str)) = .ok (.iter ((l.takeWhile S.isNotSuffix).map .str)) := by
  rw [takewhile_list _ (fun v => match v with | .str s => S.isNotSuffix s | _ => false)]
  · simp only [List.takeWhile_map]; rfl
  · intro x hx
    simp only [List.mem_map] at hx
    obtain ⟨a, _, rfl⟩ := hx
    exact _is_not_suffix_eq_model a

/-- `Specifier._compare_compatible(prospective, spec)` -/
theorem Specifier._compare_compatible_eq_model (self : PyVal) (p : Ver) (hp : WF p) (spec : Str) :
    Gen.PySrc.Specifier._compare_compatible self (ofVer "Version" p) (.str spec) =
      (S.compareCompatible p spec).map PyVal.bool := by
  unfold Gen.PySrc.Specifier._compare_compatible S.compareCompatible
  simp only [className_str, beq_self_eq_true, if_true, canon_str_nostrip]
  cases hns : S.canonNoStrip spec with
  | error e => rfl
  | ok ns =>
    have hv := _version_split_eq_model ns
    simp only [ofStrs] at hv
    have hm1 : (PyVal.int (-1)) = PyVal.int (-((1 : Nat) : Int)) := rfl
    simp only [Except.map, ok_bind, hv, takewhile_not_suffix, list_iter, hm1, getslice_list_neg _ 1 (by omega),
      List.length_map, ← List.map_take]
    have hdl : ∀ l : List Str, l.take (l.length - 1) = l.dropLast := fun l => (List.dropLast_eq_take).symm
    rw [hdl, ← ofStrs.eq_1, _version_join_eq_model]
    cases hj : S.versionJoin ((versionSplit ns).takeWhile isNotSuffix).dropLast with
    | none => rfl
    | some j =>
      simp only [ok_bind, PyRt.add, show ofString ".*" = [46, 42] from rfl, pure_ok,
        Specifier._compare_greater_than_equal_eq_model self p hp spec]
      cases hge : S.compareGE p spec with
      | error e => rfl
      | ok ge =>
        cases ge <;> cases hce : S.compareEqual p (j ++ [46, 42]) <;>
          src_simp [Specifier._compare_equal_eq_model self p hp, hce]

end Src
