import PkgModel.Generated.PySrc
import PkgModel.PyLic
import PkgModel.License
import PkgProofs.Lemmas.PyRt
/-!
# Translated source of `packaging.licenses.canonicalize_license_expression` = the model `Lic.canon`

`Gen.PySrc.canonicalize_license_expression` is the Lean translation of the current Python source.  The theorem says that on
every string it returns what `Lic.canon` returns, `InvalidLicenseExpression` standing for `none`.

The two `for` loops are handled by loop lemmas over an abstract body (`loop1`, `loop2`): the body is only required to make
the step of the model (`LicP.step`, `LicP.normStep`) on the components of the state that matter.
-/
namespace Src
open PyRt Py
set_option linter.unusedSimpArgs false

theorem canonicalize_license_expression_translated : Gen.PySrc.canonicalize_license_expression_supported = true := rfl

namespace LicP
open Lic

/-! ### string constants of the source -/

theorem s_lp : ofString "(" = [40] := by decide
theorem s_rp : ofString ")" = [41] := by decide
theorem s_padl : ofString " ( " = [32, 40, 32] := by decide
theorem s_padr : ofString " ) " = [32, 41, 32] := by decide
theorem s_lpsp : ofString "( " = [40, 32] := by decide
theorem s_sprp : ofString " )" = [32, 41] := by decide
theorem s_sp : ofString " " = [32] := by decide
theorem s_empty : ofString "" = [] := by decide
theorem s_plus : ofString "+" = [43] := by decide
theorem s_or : ofString "or" = [111, 114] := by decide
theorem s_and : ofString "and" = [97, 110, 100] := by decide
theorem s_with : ofString "with" = [119, 105, 116, 104] := by decide
theorem s_WITH : ofString "WITH" = [87, 73, 84, 72] := by decide
theorem s_operator : ofString "operator" = [111, 112, 101, 114, 97, 116, 111, 114] := by decide
theorem s_license : ofString "license" = [108, 105, 99, 101, 110, 115, 101] := by decide
theorem s_exception : ofString "exception" = [101, 120, 99, 101, 112, 116, 105, 111, 110] := by decide
theorem s_ref : ofString "LicenseRef-" = [76, 105, 99, 101, 110, 115, 101, 82, 101, 102, 45] := by decide
theorem s_reflower : ofString "licenseref-" = [108, 105, 99, 101, 110, 115, 101, 114, 101, 102, 45] := by decide

/-! ### run-time primitives on well-typed arguments -/

theorem flatMap_replace1 (c : Nat) (n : Str) (s : Str) :
    (s.flatMap fun x => if x == c then n else [x]) = replace1 c n s := by
  induction s with
  | nil => rfl
  | cons x xs ih =>
    simp only [List.flatMap_cons, replace1, ih]
    split <;> simp

/-- `s.replace(chr(c), n)` -/
theorem str_replace_one (s : Str) (c : Nat) (n : Str) :
    str_replace (.str s) (.str [c]) (.str n) = .ok (.str (replace1 c n s)) := by
  simp only [str_replace, pure_ok, flatMap_replace1]

theorem replaceStr_two (a b : Nat) (new : Str) : ∀ (fuel : Nat) (s : Str), s.length < fuel →
    replaceStr [a, b] new fuel s = replace2 a b new s := by
  intro fuel
  induction fuel with
  | zero => intro s h; omega
  | succ f ih =>
    intro s h
    match s with
    | [] => simp [replaceStr, replace2]
    | [x] =>
      cases f with
      | zero => simp [replaceStr, replace2, startsWith]
      | succ g => simp [replaceStr, replace2, startsWith]
    | x :: y :: r =>
      have h1 : r.length < f := by simp only [List.length_cons] at h; omega
      have h2 : (y :: r).length < f := by simp only [List.length_cons] at h ⊢; omega
      simp only [replaceStr, replace2, startsWith, Bool.and_true, List.length_cons, List.length_nil, List.drop_succ_cons,
        List.drop_zero, ih r h1, ih (y :: r) h2]

/-- `s.replace(chr(a)+chr(b), n)` -/
theorem str_replace_two (s : Str) (a b : Nat) (n : Str) :
    str_replace (.str s) (.str [a, b]) (.str n) = .ok (.str (replace2 a b n s)) := by
  simp only [str_replace, List.isEmpty_cons, Bool.false_eq_true, if_false, pure_ok,
    replaceStr_two a b n _ s (Nat.lt_succ_self _)]

/-- `x in {…}` for a string `x` -/
theorem contains_set_str (l : List PyVal) (p : Str) :
    contains_set (.tuple l) (.str p) = .ok (l.any (PyVal.eq (.str p))) := by rfl

/-- the same membership tests written with a tuple or a list display instead of a set display -/
theorem contains_tuple_str (l : List PyVal) (p : Str) :
    contains (.tuple l) (.str p) = .ok (l.any (PyVal.eq (.str p))) := by rfl
theorem contains_list_str (l : List PyVal) (p : Str) :
    contains (.list l) (.str p) = .ok (l.any (PyVal.eq (.str p))) := by rfl

theorem gt_int (a b : Int) : gt (.int a) (.int b) = .ok (.bool (decide (a > b))) := by
  simp [gt, cmp, asInt, Cmp.onInt]

theorem add_nat_one (d : Nat) : add (.int (d : Int)) (.int 1) = .ok (.int ((d + 1 : Nat) : Int)) := by
  simp [add_int]

theorem sub_nat_one (d : Nat) (h : d > 0) : sub (.int (d : Int)) (.int 1) = .ok (.int ((d - 1 : Nat) : Int)) := by
  simp only [sub_int]; congr 2; omega

/-! ### first loop -/

/-- the values of `previous` -/
def kstr : Kind → Str
  | .lp => [40]
  | .rp => [41]
  | .op => [111, 112, 101, 114, 97, 116, 111, 114]
  | .with => [119, 105, 116, 104]
  | .lic => [108, 105, 99, 101, 110, 115, 101]
  | .exc => [101, 120, 99, 101, 112, 116, 105, 111, 110]

theorem closes_eq (k : Kind) :
    (kstr k == [41] || (kstr k == [108, 105, 99, 101, 110, 115, 101] ||
      kstr k == [101, 120, 99, 101, 112, 116, 105, 111, 110])) = k.closes := by
  cases k <;> decide

/-- one iteration of the first loop on (`depth`, `previous`); `none` = `raise` -/
def step (t : Str) (d : Nat) (k : Kind) : Option (Nat × Kind) :=
  if t == kLP then (if k.opens then some (d + 1, .lp) else none)
  else if t == kRP then (if k.closes && decide (d > 0) then some (d - 1, .rp) else none)
  else if t == kOr || t == kAnd then (if k.closes then some (d, .op) else none)
  else if t == kWith then (if k == .lic then some (d, .with) else none)
  else if k == .with then some (d, .exc)
  else if k.opens then some (d, .lic) else none

/-- the state after the whole loop -/
def structEnd : List Str → Nat → Kind → Option (Nat × Kind)
  | [], d, k => some (d, k)
  | t :: ts, d, k =>
    match step t d k with
    | none => none
    | some (d', k') => structEnd ts d' k'

theorem structGo_eq_end : ∀ (toks : List Str) (d : Nat) (k : Kind),
    structGo toks d k = match structEnd toks d k with
      | none => false
      | some (d', k') => !(decide (d' > 0) || !k'.closes)
  | [], d, k => by simp [structGo, structEnd]
  | t :: ts, d, k => by
    simp only [structGo, structEnd, step]
    split
    · cases k.opens <;> simp [structGo_eq_end ts]
    · split
      · cases (k.closes && decide (d > 0)) <;> simp [structGo_eq_end ts]
      · split
        · cases k.closes <;> simp [structGo_eq_end ts]
        · split
          · cases (k == Kind.lic) <;> simp [structGo_eq_end ts]
          · split
            · simp [structGo_eq_end ts]
            · cases k.opens <;> simp [structGo_eq_end ts]

/-- the first loop over an abstract body `f` that makes the model's step on the two components `dep`, `prev` of the state,
followed by `k` -/
theorem loop1 {σ β : Type} (dep prev : σ → PyVal) (f : PyVal → σ → M (ForInStep σ)) (k : σ → M β) (R : M β)
    (hf : ∀ (t : Str) (s : σ) (d : Nat) (kd : Kind), dep s = .int d → prev s = .str (kstr kd) →
      match step t d kd with
      | none => f (.str t) s = .error "InvalidLicenseExpression"
      | some (d', k') => ∃ s', f (.str t) s = .ok (.yield s') ∧ dep s' = .int d' ∧ prev s' = .str (kstr k')) :
    ∀ (toks : List Str) (d : Nat) (kd : Kind) (init : σ), dep init = .int d → prev init = .str (kstr kd) →
    (match structEnd toks d kd with
      | none => R = .error "InvalidLicenseExpression"
      | some (d', k') => ∀ s', dep s' = .int d' → prev s' = .str (kstr k') → k s' = R) →
    (forIn (toks.map PyVal.str) init f >>= k) = R := by
  intro toks
  induction toks with
  | nil =>
    intro d kd init hd hp hR
    simp only [structEnd] at hR
    simpa using hR init hd hp
  | cons t ts ih =>
    intro d kd init hd hp hR
    have h := hf t init d kd hd hp
    simp only [structEnd] at hR
    simp only [List.map_cons, List.forIn_cons]
    cases hs : step t d kd with
    | none =>
      simp only [hs] at h hR
      rw [h, hR]; rfl
    | some r =>
      obtain ⟨d', k'⟩ := r
      simp only [hs] at h hR
      obtain ⟨s', h1, h2, h3⟩ := h
      rw [h1]
      simp only [ok_bind]
      exact ih d' k' s' h2 h3 hR

/-- x8: the first loop when an ill-formed token makes the body *leave the loop* (`return False` inside a helper: the state
then satisfies `bad`) instead of raising; the state is related to the model's `(depth, previous)` by any `Rel` -/
theorem loop1r {σ β : Type} (Rel : σ → Nat → Kind → Prop) (bad : σ → Prop) (f : PyVal → σ → M (ForInStep σ)) (k : σ → M β)
    (R Rbad : M β) (hbad : ∀ s', bad s' → k s' = Rbad)
    (hf : ∀ (t : Str) (s : σ) (d : Nat) (kd : Kind), Rel s d kd →
      match step t d kd with
      | none => ∃ s', f (.str t) s = .ok (.done s') ∧ bad s'
      | some (d', k') => ∃ s', f (.str t) s = .ok (.yield s') ∧ Rel s' d' k') :
    ∀ (toks : List Str) (d : Nat) (kd : Kind) (init : σ), Rel init d kd →
    (match structEnd toks d kd with
      | none => R = Rbad
      | some (d', k') => ∀ s', Rel s' d' k' → k s' = R) →
    (forIn (toks.map PyVal.str) init f >>= k) = R := by
  intro toks
  induction toks with
  | nil =>
    intro d kd init hrel hR
    simp only [structEnd] at hR
    simpa using hR init hrel
  | cons t ts ih =>
    intro d kd init hrel hR
    have h := hf t init d kd hrel
    simp only [structEnd] at hR
    simp only [List.map_cons, List.forIn_cons]
    cases hs : step t d kd with
    | none =>
      simp only [hs] at h hR
      obtain ⟨s', h1, h2⟩ := h
      rw [h1, hR]
      simpa using hbad s' h2
    | some r =>
      obtain ⟨d', k'⟩ := r
      simp only [hs] at h hR
      obtain ⟨s', h1, h2⟩ := h
      rw [h1]
      simp only [ok_bind]
      exact ih d' k' s' h2 hR

/-! ### second loop -/

/-- one iteration of the second loop: the token appended to `normalized_tokens`; `none` = `raise` -/
def normStep (prev : Option Str) (o t : Str) : Option Str :=
  if isGrammar t then some (upperOp t) else normWord prev o t

theorem normGo_cons (o t : Str) (ts : List (Str × Str)) (prev : Option Str) :
    normGo ((o, t) :: ts) prev = match normStep prev o t with
      | none => none
      | some w => (normGo ts (some w)).map (w :: ·) := by
  simp only [normGo, normStep]
  split
  · rfl
  · split <;> simp_all

/-- the items of `zip(original_tokens, tokens)` -/
def pairVal (p : Str × Str) : PyVal := .tuple [.str p.1, .str p.2]

theorem zipVals_strs : ∀ (a b : List Str), zipVals (a.map .str) (b.map .str) = (a.zip b).map pairVal
  | [], _ => by simp [zipVals]
  | _ :: _, [] => by simp [zipVals]
  | x :: xs, y :: ys => by simp [zipVals, zipVals_strs xs ys, pairVal]

theorem zip2_strs (a b : List Str) :
    zip2 (.list (a.map .str)) (.list (b.map .str)) = .ok (.iter ((a.zip b).map pairVal)) := by
  simp only [zip2, iterate_list, ok_bind, pure_ok, zipVals_strs]

/-- the second loop over an abstract body `f` that appends the model's token to the component `nt` of the state,
followed by `k` -/
theorem loop2 {σ β : Type} (nt : σ → PyVal) (f : PyVal → σ → M (ForInStep σ)) (k : σ → M β) (R : M β)
    (hf : ∀ (o t : Str) (s : σ) (acc : List Str), nt s = .list (acc.map .str) →
      match normStep acc.getLast? o t with
      | none => f (pairVal (o, t)) s = .error "InvalidLicenseExpression"
      | some w => ∃ s', f (pairVal (o, t)) s = .ok (.yield s') ∧ nt s' = .list ((acc ++ [w]).map .str)) :
    ∀ (pairs : List (Str × Str)) (acc : List Str) (init : σ), nt init = .list (acc.map .str) →
    (match normGo pairs acc.getLast? with
      | none => R = .error "InvalidLicenseExpression"
      | some r => ∀ s', nt s' = .list ((acc ++ r).map .str) → k s' = R) →
    (forIn (pairs.map pairVal) init f >>= k) = R := by
  intro pairs
  induction pairs with
  | nil =>
    intro acc init hn hR
    simp only [normGo] at hR
    simpa using hR init (by simpa using hn)
  | cons p ps ih =>
    obtain ⟨o, t⟩ := p
    intro acc init hn hR
    have h := hf o t init acc hn
    rw [normGo_cons] at hR
    simp only [List.map_cons, List.forIn_cons]
    cases hs : normStep acc.getLast? o t with
    | none =>
      simp only [hs] at h hR
      rw [h, hR]; rfl
    | some w =>
      simp only [hs] at h hR
      obtain ⟨s', h1, h2⟩ := h
      rw [h1]
      simp only [ok_bind]
      refine ih (acc ++ [w]) s' h2 ?_
      simp only [List.getLast?_append, List.getLast?_singleton, Option.some_or]
      cases hg : normGo ps (some w) with
      | none => simpa [hg] using hR
      | some r =>
        simp only [hg, Option.map_some] at hR
        intro s'' hs''
        exact hR s'' (by simpa using hs'')

theorem join_sp : ∀ l : List Str, Py.join [32] l = joinSp l
  | [] => rfl
  | [x] => rfl
  | x :: y :: r => by
    simp only [Py.join, joinSp, List.append_assoc, List.singleton_append] at *
    rw [← join_sp (y :: r)]

/-! ### primitives of the second loop -/

theorem table_exc : PyLic.table "EXCEPTIONS" = some Gen.SpdxTables.exceptions := by
  simp [PyLic.table]
theorem table_lic : PyLic.table "LICENSES" = some Gen.SpdxTables.licenses := by
  simp [PyLic.table]

theorem tbl_has_exc (t : Str) :
    PyLic.tbl_has "EXCEPTIONS" (.str t) = .ok (findId Gen.SpdxTables.exceptions t).isSome := by
  simp only [PyLic.tbl_has, table_exc, pure_ok]
theorem tbl_has_lic (t : Str) :
    PyLic.tbl_has "LICENSES" (.str t) = .ok (findId Gen.SpdxTables.licenses t).isSome := by
  simp only [PyLic.tbl_has, table_lic, pure_ok]
theorem tbl_id_exc (t : Str) :
    PyLic.tbl_id "EXCEPTIONS" (.str t) =
      match findId Gen.SpdxTables.exceptions t with | some i => .ok (.str i) | none => .error "KeyError" := by
  simp only [PyLic.tbl_id, table_exc]
  cases findId Gen.SpdxTables.exceptions t <;> rfl
theorem tbl_id_lic (t : Str) :
    PyLic.tbl_id "LICENSES" (.str t) =
      match findId Gen.SpdxTables.licenses t with | some i => .ok (.str i) | none => .error "KeyError" := by
  simp only [PyLic.tbl_id, table_lic]
  cases findId Gen.SpdxTables.licenses t <;> rfl

theorem getitem_last (l : List Str) (w : Str) :
    getitem (.list ((l ++ [w]).map .str)) (.int (-1)) = .ok (.str w) := by
  have h1 : normIndex ((l ++ [w]).map PyVal.str).length (-1) = some l.length := by
    simp [normIndex]
  simp only [getitem, asInt, h1, pure_ok]
  simp

theorem getslice_str_dropLast (s : Str) : getslice (.str s) .none (.int (-1)) = .ok (.str s.dropLast) := by
  have h1 : ¬ (0 ≤ (-1 : Int)) := by omega
  have h2 : (- (-1 : Int)).toNat = 1 := by decide
  simp only [getslice, clampBound_none, clampBound, asInt, h1, if_false, h2, ok_bind, pure_ok, sliceList, List.drop_zero,
    List.dropLast_eq_take]
  congr 3
  omega

theorem getslice_str_from (s : Str) (k : Nat) : getslice (.str s) (.int k) .none = .ok (.str (s.drop k)) := by
  simp only [getslice, clampBound_nat, clampBound_none, ok_bind, pure_ok, sliceList, List.take_length]
  congr 2
  by_cases h : k ≤ s.length
  · rw [Nat.min_eq_left h]
  · rw [Nat.min_eq_right (by omega), List.drop_of_length_le (by omega), List.drop_of_length_le (by omega)]

theorem getslice_str_11 (s : Str) : getslice (.str s) (.int 11) .none = .ok (.str (s.drop 11)) :=
  getslice_str_from s 11

theorem len_ref : len (.str [76, 105, 99, 101, 110, 115, 101, 82, 101, 102, 45]) = .ok (.int 11) := by rfl
theorem str_upper_str (s : Str) : str_upper (.str s) = .ok (.str (s.map upperAscii)) := by rfl
theorem str_startswith_str (s p : Str) : str_startswith (.str s) (.str p) = .ok (.bool (startsWith s p)) := by rfl
theorem str_endswith_str (s p : Str) : str_endswith (.str s) (.str p) = .ok (.bool (endsWith s p)) := by rfl
theorem add_str (a b : Str) : add (.str a) (.str b) = .ok (.str (a ++ b)) := by rfl
theorem ref_match_str (s : Str) :
    PyLic.ref_match (.str s) = .ok (if refAllowed s then .obj "re.Match" [("groups", .tuple [])] else .none) := by rfl

theorem isGrammar_eq (t : Str) :
    (t == [111, 114] || (t == [97, 110, 100] || (t == [119, 105, 116, 104] || (t == [40] || t == [41])))) =
      isGrammar t := by
  simp [isGrammar, kOr, kAnd, kWith, kLP, kRP, Bool.or_assoc]

/-- x8: the same test against a *named* constant set (the translator lists its members sorted, whatever the source order) -/
theorem isGrammar_eq' (t : Str) :
    (t == [40] || (t == [41] || (t == [97, 110, 100] || (t == [111, 114] || t == [119, 105, 116, 104])))) =
      isGrammar t := by
  simp only [isGrammar, kOr, kAnd, kWith, kLP, kRP]
  cases (t == [40]) <;> cases (t == [41]) <;> cases (t == [97, 110, 100]) <;> cases (t == [111, 114]) <;>
    cases (t == [119, 105, 116, 104]) <;> rfl

/-- x8: membership in the set of the five grammar words, in whatever order the display lists them: any list of values with
the same members -/
theorem any_grammar (l : List PyVal) (t : Str)
    (h : ∀ x, x ∈ l ↔ x ∈ [PyVal.str kOr, .str kAnd, .str kWith, .str kLP, .str kRP]) :
    l.any (PyVal.eq (.str t)) = isGrammar t := by
  have heq : ∀ y : PyVal, PyVal.eq (.str t) y = true ↔ y = .str t := by
    intro y
    cases y with
    | str b => simp only [eq_str, beq_iff_eq, PyVal.str.injEq]; exact eq_comm
    | _ => simp [PyVal.eq]
  have e : ∀ (l : List PyVal), l.any (PyVal.eq (.str t)) = true ↔ PyVal.str t ∈ l := by
    intro l
    simp only [List.any_eq_true, heq]
    constructor
    · rintro ⟨x, hx, rfl⟩; exact hx
    · intro hx; exact ⟨_, hx, rfl⟩
  rw [Bool.eq_iff_iff, e, h]
  simp [isGrammar, kOr, kAnd, kWith, kLP, kRP, or_assoc]

theorem upper_grammar {t : Str} (h : isGrammar t = true) : t.map upperAscii = upperOp t := by
  simp only [isGrammar, Bool.or_eq_true, beq_iff_eq] at h
  rcases h with (((h | h) | h) | h) | h <;> subst h <;> decide

theorem eq_nil_or_snoc (acc : List Str) : acc = [] ∨ ∃ l w, acc = l ++ [w] := by
  rcases List.eq_nil_or_concat acc with h | ⟨l, w, h⟩
  · exact .inl h
  · exact .inr ⟨l, w, by rw [h, List.concat_eq_append]⟩
theorem snoc_isEmpty {α} (l : List α) (w : α) : (l ++ [w]).isEmpty = false := by cases l <;> rfl

theorem unpack2_tuple (a b : PyVal) : unpack2 (.tuple [a, b]) = .ok (a, b) := by rfl

theorem str_split0_str (s : Str) : PyLic.str_split0 (.str s) = .ok (.list ((Lic.split s).map .str)) := by rfl
theorem ascii_lower_str (s : Str) : PyLic.ascii_lower (.str s) = .ok (.str (lowerStr s)) := by rfl

end LicP
open LicP

/-- evaluation of one iteration of the first loop once the token and `previous` are known -/
local macro "step_simp" "[" ts:Lean.Parser.Tactic.simpLemma,* "]" : tactic =>
  `(tactic| simp [step, kstr, Lic.Kind.opens, Lic.Kind.closes, eq_str, contains_set_str, contains_tuple_str, contains_list_str, s_lp, s_rp, s_or, s_and, s_with,
      s_operator, s_license, s_exception, add_nat_one, gt_int, PyRt.eq, Lic.kLP, Lic.kRP, Lic.kOr, Lic.kAnd, Lic.kWith,
      $ts,*])

/-- evaluation of the word branch of the second loop once the tests are known -/
local macro "word_simp" "[" ts:Lean.Parser.Tactic.simpLemma,* "]" : tactic =>
  `(tactic| simp [Lic.normWord, Lic.kWithU, Lic.kRefLower, Lic.kRef, Lic.cPlus, str_endswith_str, str_startswith_str,
      getslice_str_dropLast, getslice_str_11, len_ref, ref_match_str, add_str, tbl_has_exc, tbl_has_lic, tbl_id_exc, tbl_id_lic,
      list_append_list, $ts,*])

/-- the tests of the word branch (`+` suffix, `licenseref-` prefix, the table / the pattern), one case each -/
local macro "word_split" t:term:max o:term:max "[" ts:Lean.Parser.Tactic.simpLemma,* "]" : tactic =>
  `(tactic| (
      cases hp : endsWith $t [Lic.cPlus] <;> simp only [Lic.cPlus] at hp
      · cases hs : startsWith $t Lic.kRefLower <;> simp only [Lic.kRefLower] at hs
        · cases hf : Lic.findId Gen.SpdxTables.licenses $t <;> word_simp [hp, hs, hf, $ts,*]
        · cases hr : Lic.refAllowed (List.drop 11 $o) <;> word_simp [hp, hs, hr, $ts,*]
      · cases hs : startsWith (List.dropLast $t) Lic.kRefLower <;> simp only [Lic.kRefLower] at hs
        · cases hf : Lic.findId Gen.SpdxTables.licenses (List.dropLast $t) <;> word_simp [hp, hs, hf, $ts,*]
        · cases hr : Lic.refAllowed (List.drop 11 $o) <;> word_simp [hp, hs, hr, $ts,*]))

set_option hygiene false in
/-- the second loop and the code after it (goal: `forIn (pairs) init body >>= tail = match normGo … with …`); the list of
normalised tokens is the last mutable local of the loop state -/
local macro "second_loop" : tactic => `(tactic| (
    refine loop2 (fun s => s.2.2.2) _ _ _ ?hf2 (orig.zip toks) [] _ rfl ?hR2
    case hR2 =>
      simp only [List.getLast?_nil, List.nil_append]
      cases hN : Lic.normGo (orig.zip toks) none with
      | none => simp
      | some r =>
        simp only
        intro s' hs'
        obtain ⟨a, b, c, n⟩ := s'
        simp only at hs'
        subst hs'
        simp only [s_sp, s_lpsp, s_sprp, str_join_list, ok_bind, str_replace_two, join_sp, Option.map_some, Lic.tighten]
    case hf2 =>
      intro o t s acc hn
      obtain ⟨a, b, c, n⟩ := s
      simp only at hn
      subst hn
      -- the test `token in {…five grammar words…}`, whatever kind of display and whatever order: `any_grammar`
      simp only [pairVal, unpack2_tuple, ok_bind, contains_set_str, contains_tuple_str, contains_list_str,
        s_or, s_and, s_with, s_WITH, s_plus, s_ref, s_reflower, s_empty, s_lp, s_rp]
      rw [any_grammar _ t (by
        intro x
        simp only [List.mem_cons, List.mem_nil_iff, or_false, Lic.kOr, Lic.kAnd, Lic.kWith, Lic.kLP, Lic.kRP] <;>
          (constructor <;> (intro hx; rcases hx with hx | hx | hx | hx | hx <;> simp [hx])))]
      simp only [List.any_cons, List.any_nil, eq_str, Bool.or_false, normStep]
      by_cases hg : Lic.isGrammar t = true
      · simp only [hg, if_true, str_upper_str, list_append_list, ok_bind, upper_grammar hg]
        exact ⟨_, rfl, by simp⟩
      have hg' : Lic.isGrammar t = false := by simpa using hg
      simp only [hg', Bool.false_eq_true, if_false]
      rcases eq_nil_or_snoc acc with rfl | ⟨l, w, rfl⟩
      · simp only [List.map_nil, truthy_list, List.isEmpty_nil, Bool.not_true, Bool.false_eq_true, if_false, ok_bind,
          List.getLast?_nil]
        word_split t o []
      · simp only [getitem_last, truthy_list, List.isEmpty_map, snoc_isEmpty, Bool.and_false,
          Bool.not_false, if_true, ok_bind, PyRt.eq, eq_str, truthy_bool, List.getLast?_append, List.getLast?_singleton,
          Option.some_or]
        by_cases hw : w = [87, 73, 84, 72]
        · subst hw
          cases hf : Lic.findId Gen.SpdxTables.exceptions t <;> word_simp [hf]
        · word_split t o [hw]))

theorem canonicalize_license_expression_eq_model (raw : Str) :
    Gen.PySrc.canonicalize_license_expression (.str raw) =
      match Lic.canon raw with
      | some s => .ok (.str s)
      | none => .error "InvalidLicenseExpression" := by
  unfold Gen.PySrc.canonicalize_license_expression
  by_cases hr : raw.isEmpty = true
  · simp [Lic.canon, hr]
  · simp only [truthy_str, hr, s_lp, s_rp, s_padl, s_padr, str_replace_one, ok_bind, str_split0_str, ascii_lower_str,
      iterate_list, Bool.not_false, Bool.not_true, Bool.false_eq_true, if_false]
    have hpad : Lic.replace1 41 [32, 41, 32] (Lic.replace1 40 [32, 40, 32] raw) = Lic.pad raw := rfl
    simp only [hpad, Lic.canon, hr, Lic.canonT]
    generalize Lic.split (Lic.pad raw) = orig
    generalize Lic.split (lowerStr (Lic.pad raw)) = toks
    first
    | -- spelling A: the structure check is a loop of this function that raises on an ill-formed token
      refine loop1 (fun s => s.2.1) (fun s => s.2.2) _ _ _ ?hf toks 0 .lp _ rfl rfl ?hR
      case hf =>
        intro t s d kd hd hp
        obtain ⟨v, dp, pv⟩ := s
        simp only at hd hp
        subst hd hp
        by_cases h1 : t = [40]
        · subst h1
          cases kd <;> step_simp []
        by_cases h2 : t = [41]
        · subst h2
          by_cases hd : d > 0
          · cases kd <;> step_simp [hd] <;> omega
          · have hd0 : d = 0 := by omega
            subst hd0
            cases kd <;> step_simp []
        by_cases h3 : t = [111, 114] ∨ t = [97, 110, 100]
        · cases kd <;> step_simp [h1, h2, h3]
        by_cases h4 : t = [119, 105, 116, 104]
        · cases kd <;> step_simp [h1, h2, h3, h4]
        · cases kd <;> step_simp [h1, h2, h3, h4]
      case hR =>
        simp only [structGo_eq_end]
        cases hE : structEnd toks 0 .lp with
        | none => simp
        | some r =>
          obtain ⟨d', k'⟩ := r
          simp only
          intro s' hd hp
          obtain ⟨v, dp, pv⟩ := s'
          simp only at hd hp
          subst hd hp
          simp only [gt_int, ok_bind, pure_ok, truthy_bool, contains_set_str, contains_tuple_str, contains_list_str, List.any_cons, List.any_nil, eq_str,
            s_license, s_exception, Bool.or_false, closes_eq, throw_err, err_bind]
          by_cases hd : d' > 0
          · have hd' : decide ((d' : Int) > 0) = true := by simp only [decide_eq_true_eq]; omega
            simp only [hd', if_true, ok_bind, truthy_bool, hd, decide_true, Bool.true_or, Bool.not_true, Bool.not_false,
              Bool.false_eq_true, if_false]
          have hd' : decide ((d' : Int) > 0) = false := by simp only [decide_eq_false_iff_not]; omega
          by_cases hk : k'.closes = true
          case neg =>
            have hk' : k'.closes = false := by simpa using hk
            simp only [hd', if_true, ok_bind, truthy_bool, hd, hk', decide_false, Bool.false_or, Bool.not_true, Bool.not_false,
              Bool.false_eq_true, if_false]
          simp only [hd', if_true, ok_bind, truthy_bool, hd, hk, decide_false, Bool.false_or, Bool.not_true, Bool.not_false,
              Bool.false_eq_true, if_false, zip2_strs, iterate_iter]
          second_loop
    | -- spelling B (x8): the structure check is a helper `_is_well_formed(tokens) -> bool` whose loop returns early
      have hwf : Gen.PySrc._is_well_formed (.list (toks.map .str)) = .ok (.bool (Lic.structGo toks 0 .lp)) := by
        unfold Gen.PySrc._is_well_formed
        simp only [iterate_list, ok_bind]
        refine loop1r (fun s d k => s.1 = none ∧ s.2.1 = .int d ∧ s.2.2 = .str (kstr k))
          (fun s => s.1 = some (.bool false)) _ _ _ (.ok (.bool false)) ?hbad ?hf toks 0 .lp _ ⟨rfl, rfl, rfl⟩ ?hR
        case hbad =>
          intro s' hs'
          simp only [hs', pure_ok]
        case hf =>
          intro t s d kd hrel
          obtain ⟨v, dp, pv⟩ := s
          obtain ⟨hv, hd, hp⟩ := hrel
          simp only at hv hd hp
          subst hv hd hp
          by_cases h1 : t = [40]
          · subst h1
            cases kd <;> step_simp []
          by_cases h2 : t = [41]
          · subst h2
            by_cases hd : d > 0
            · have hd0 : d ≠ 0 := by omega
              cases kd <;> step_simp [hd, hd0, sub_int] <;> omega
            · have hd0 : d = 0 := by omega
              subst hd0
              cases kd <;> step_simp []
          by_cases h3 : t = [111, 114] ∨ t = [97, 110, 100]
          · cases kd <;> step_simp [h1, h2, h3]
          by_cases h4 : t = [119, 105, 116, 104]
          · cases kd <;> step_simp [h1, h2, h3, h4]
          · cases kd <;> step_simp [h1, h2, h3, h4]
        case hR =>
          simp only [structGo_eq_end]
          cases hE : structEnd toks 0 .lp with
          | none => simp
          | some r =>
            obtain ⟨d', k'⟩ := r
            simp only
            intro s' hrel
            obtain ⟨v, dp, pv⟩ := s'
            obtain ⟨hv, hd, hp⟩ := hrel
            simp only at hv hd hp
            subst hv hd hp
            cases k' <;> rcases d' with _ | d' <;>
              simp [kstr, Lic.Kind.closes, PyRt.eq, contains_set_str, s_rp, s_license, s_exception] <;>
              (have h0 : ¬ ((d' : Int) + 1 = 0) := by omega
               simp [h0])
      simp only [hwf, ok_bind, truthy_bool]
      cases Lic.structGo toks 0 .lp with
      | false => simp
      | true =>
        simp only [Bool.not_true, Bool.false_eq_true, if_false, zip2_strs, iterate_iter, ok_bind, pure_ok]
        second_loop

end Src
