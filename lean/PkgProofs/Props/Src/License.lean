import PkgModel.Generated.PySrc
import PkgModel.PyLic
import PkgModel.License
import PkgProofs.Lemmas.PyRt
/-!
# Translated source of `packaging.licenses.canonicalize_license_expression` = the model `Lic.canon`

`Gen.PySrc.canonicalize_license_expression` is the Lean translation of the current Python source.  The theorem says that on
every string it returns what `Lic.canon` returns, `InvalidLicenseExpression` standing for `none`.

The two `for` loops are handled by loop lemmas over an abstract body (`loop1`, `loop2`): the body is only required to make
the step of the model (`LicP.step`, `LicP.normStep`) on the components of the state that matter.
-/
namespace Src
open PyRt Py
set_option linter.unusedSimpArgs false

theorem canonicalize_license_expression_translated : Gen.PySrc.canonicalize_license_expression_supported = true := rfl

namespace LicP
open Lic

/-! ### string constants of the source -/

theorem s_lp : ofString "(" = [40] := by decide
theorem s_rp : ofString ")" = [41] := by decide
theorem s_padl : ofString " ( " = [32, 40, 32] := by decide
theorem s_padr : ofString " ) " = [32, 41, 32] := by decide
theorem s_lpsp : ofString "( " = [40, 32] := by decide
theorem s_sprp : ofString " )" = [32, 41] := by decide
theorem s_sp : ofString " " = [32] := by decide
theorem s_empty : ofString "" = [] := by decide
theorem s_plus : ofString "+" = [43] := by decide
theorem s_or : ofString "or" = [111, 114] := by decide
theorem s_and : ofString "and" = [97, 110, 100] := by decide
theorem s_with : ofString "with" = [119, 105, 116, 104] := by decide
theorem s_WITH : ofString "WITH" = [87, 73, 84, 72] := by decide
theorem s_operator : ofString "operator" = [111, 112, 101, 114, 97, 116, 111, 114] := by decide
theorem s_license : ofString "license" = [108, 105, 99, 101, 110, 115, 101] := by decide
theorem s_exception : ofString "exception" = [101, 120, 99, 101, 112, 116, 105, 111, 110] := by decide
theorem s_ref : ofString "LicenseRef-" = [76, 105, 99, 101, 110, 115, 101, 82, 101, 102, 45] := by decide
theorem s_reflower : ofString "licenseref-" = [108, 105, 99, 101, 110, 115, 101, 114, 101, 102, 45] := by decide

/-! ### run-time primitives on well-typed arguments -/

theorem flatMap_replace1 (c : Nat) (n : Str) (s : Str) :
    (s.flatMap fun x => if x == c then n else [x]) = replace1 c n s := by
  induction s with
  | nil => rfl
  | cons x xs ih =>
    simp only [List.flatMap_cons, replace1, ih]
    split <;> simp

/-- `s.replace(chr(c), n)` -/
theorem str_replace_one (s : Str) (c : Nat) (n : Str) :
    str_replace (.str s) (.str [c]) (.str n) = .ok (.str (replace1 c n s)) := by
  simp only [str_replace, pure_ok, flatMap_replace1]

theorem replaceStr_two (a b : Nat) (new : Str) : ∀ (fuel : Nat) (s : Str), s.length < fuel →
    replaceStr [a, b] new fuel s = replace2 a b new s := by
  intro fuel
  induction fuel with
  | zero => intro s h; omega
  | succ f ih =>
    intro s h
    match s with
    | [] => simp [replaceStr, replace2]
    | [x] =>
      cases f with
      | zero => simp [replaceStr, replace2, startsWith]
      | succ g => simp [replaceStr, replace2, startsWith]
    | x :: y :: r =>
      have h1 : r.length < f := by simp only [List.length_cons] at h; omega
      have h2 : (y :: r).length < f := by simp only [List.length_cons] at h ⊢; omega
      simp only [replaceStr, replace2, startsWith, Bool.and_true, List.length_cons, List.length_nil, List.drop_succ_cons,
        List.drop_zero, ih r h1, ih (y :: r) h2]

/-- `s.replace(chr(a)+chr(b), n)` -/
theorem str_replace_two (s : Str) (a b : Nat) (n : Str) :
    str_replace (.str s) (.str [a, b]) (.str n) = .ok (.str (replace2 a b n s)) := by
  simp only [str_replace, List.isEmpty_cons, Bool.false_eq_true, if_false, pure_ok,
    replaceStr_two a b n _ s (Nat.lt_succ_self _)]

/-- `x in {…}` for a string `x` -/
theorem contains_set_str (l : List PyVal) (p : Str) :
    contains_set (.tuple l) (.str p) = .ok (l.any (PyVal.eq (.str p))) := by rfl

theorem gt_nat_zero (d : Nat) : gt (.int (d : Int)) (.int 0) = .ok (.bool (decide (d > 0))) := by
  simp [gt, cmp, asInt, Cmp.onInt]

theorem add_nat_one (d : Nat) : add (.int (d : Int)) (.int 1) = .ok (.int ((d + 1 : Nat) : Int)) := by
  simp [add_int]

theorem sub_nat_one (d : Nat) (h : d > 0) : sub (.int (d : Int)) (.int 1) = .ok (.int ((d - 1 : Nat) : Int)) := by
  simp only [sub_int]; congr 2; omega

/-! ### first loop -/

/-- the values of `previous` -/
def kstr : Kind → Str
  | .lp => [40]
  | .rp => [41]
  | .op => [111, 112, 101, 114, 97, 116, 111, 114]
  | .with => [119, 105, 116, 104]
  | .lic => [108, 105, 99, 101, 110, 115, 101]
  | .exc => [101, 120, 99, 101, 112, 116, 105, 111, 110]

/-- one iteration of the first loop on (`depth`, `previous`); `none` = `raise` -/
def step (t : Str) (d : Nat) (k : Kind) : Option (Nat × Kind) :=
  if t == kLP then (if k.opens then some (d + 1, .lp) else none)
  else if t == kRP then (if k.closes && decide (d > 0) then some (d - 1, .rp) else none)
  else if t == kOr || t == kAnd then (if k.closes then some (d, .op) else none)
  else if t == kWith then (if k == .lic then some (d, .with) else none)
  else if k == .with then some (d, .exc)
  else if k.opens then some (d, .lic) else none

/-- the state after the whole loop -/
def structEnd : List Str → Nat → Kind → Option (Nat × Kind)
  | [], d, k => some (d, k)
  | t :: ts, d, k =>
    match step t d k with
    | none => none
    | some (d', k') => structEnd ts d' k'

theorem structGo_eq_end : ∀ (toks : List Str) (d : Nat) (k : Kind),
    structGo toks d k = match structEnd toks d k with
      | none => false
      | some (d', k') => !(decide (d' > 0) || !k'.closes)
  | [], d, k => by simp [structGo, structEnd]
  | t :: ts, d, k => by
    simp only [structGo, structEnd, step]
    split
    · cases k.opens <;> simp [structGo_eq_end ts]
    · split
      · cases (k.closes && decide (d > 0)) <;> simp [structGo_eq_end ts]
      · split
        · cases k.closes <;> simp [structGo_eq_end ts]
        · split
          · cases (k == Kind.lic) <;> simp [structGo_eq_end ts]
          · split
            · simp [structGo_eq_end ts]
            · cases k.opens <;> simp [structGo_eq_end ts]

/-- the first loop over an abstract body `f` that makes the model's step on the two components `dep`, `prev` of the state,
followed by `k` -/
theorem loop1 {σ β : Type} (dep prev : σ → PyVal) (f : PyVal → σ → M (ForInStep σ)) (k : σ → M β) (R : M β)
    (hf : ∀ (t : Str) (s : σ) (d : Nat) (kd : Kind), dep s = .int d → prev s = .str (kstr kd) →
      match step t d kd with
      | none => f (.str t) s = .error "InvalidLicenseExpression"
      | some (d', k') => ∃ s', f (.str t) s = .ok (.yield s') ∧ dep s' = .int d' ∧ prev s' = .str (kstr k')) :
    ∀ (toks : List Str) (d : Nat) (kd : Kind) (init : σ), dep init = .int d → prev init = .str (kstr kd) →
    (match structEnd toks d kd with
      | none => R = .error "InvalidLicenseExpression"
      | some (d', k') => ∀ s', dep s' = .int d' → prev s' = .str (kstr k') → k s' = R) →
    (forIn (toks.map PyVal.str) init f >>= k) = R := by
  intro toks
  induction toks with
  | nil =>
    intro d kd init hd hp hR
    simp only [structEnd] at hR
    simpa using hR init hd hp
  | cons t ts ih =>
    intro d kd init hd hp hR
    have h := hf t init d kd hd hp
    simp only [structEnd] at hR
    simp only [List.map_cons, List.forIn_cons]
    cases hs : step t d kd with
    | none =>
      simp only [hs] at h hR
      rw [h, hR]; rfl
    | some r =>
      obtain ⟨d', k'⟩ := r
      simp only [hs] at h hR
      obtain ⟨s', h1, h2, h3⟩ := h
      rw [h1]
      simp only [ok_bind]
      exact ih d' k' s' h2 h3 hR

end LicP
end Src
