import PkgProofs.Props.Src.SSetMember
import PkgProofs.Props.C05
/-!
# Translated source of `SpecifierSet.__init__`, `.__and__`, `.__eq__` = the model
(`SSet.ofSpecs`, `SSet.ofString`, `SSet.SpecSet.and`, `SSet.SpecSet.eq`)

The set primitives of the run-time (`PySet.dedupHM`, `PyRx.dedupM`, `PySet.subsetM`) with the translated
`Specifier.__hash__` / `Specifier.__eq__` as closures are the model's `SSet.insert` / `SSet.union` / `SSet.hasKey`; the
three methods then normalise with `simp`.  Every set lemma is given for the closure as the translator writes it (`pure`)
and for the form `simp` rewrites it to (`Except.ok`); the `simp` calls list both, so one of them is always unused.
-/
set_option linter.unusedSimpArgs false
namespace Src
open PyRt Py V S
open SSet (Member SpecSet CKey key canonical_isOk)

theorem build_translated :
    (Gen.PySrc.SpecifierSet.__init___supported && Gen.PySrc.SpecifierSet.__and___supported &&
     Gen.PySrc.SpecifierSet.__eq___supported) = true := rfl

set_option quotPrecheck false in
/-- the equality closure the translator passes to the set primitives -/
local notation "eqf" =>
  (fun __a __b => do pure (PyRt.eqResult false (← Gen.PySrc.Specifier.__eq__ __a __b)) : PyVal → PyVal → M PyVal)
set_option quotPrecheck false in
/-- the hash closure -/
local notation "hashf" => (fun __a => Gen.PySrc.Specifier.__hash__ __a : PyVal → M PyVal)

/-! ## the set primitives on members -/

/-- probing the table: is a stored member equal to `x`? -/
theorem memM_member (x : Member) (l : List Member) :
    PyRx.memM eqf (ofMember x) (l.map ofMember) = .ok (SSet.hasKey l (key x.1)) := by
  induction l with
  | nil => rfl
  | cons y ys ih =>
    simp only [List.map_cons, PyRx.memM, eqf_member, PyRt.ok_bind, truthy_bool, ih, SSet.hasKey, List.any_cons]
    cases key y.1 == key x.1 <;> rfl

theorem map_insert (acc : List Member) (m : Member) :
    (SSet.insert acc m).map ofMember =
      if SSet.hasKey acc (key m.1) then acc.map ofMember else acc.map ofMember ++ [ofMember m] := by
  unfold SSet.insert
  split <;> simp

/-- hashing and deduplicating members is the model's insertion -/
theorem dedupHM_member (acc ms : List Member) :
    PySet.dedupHM hashf eqf (acc.map ofMember) (ms.map ofMember) = .ok ((ms.foldl SSet.insert acc).map ofMember) := by
  induction ms generalizing acc with
  | nil => rfl
  | cons m ms ih =>
    simp only [List.map_cons, PySet.dedupHM, hashf_member, PyRt.ok_bind, memM_member, List.foldl_cons]
    rw [← ih (SSet.insert acc m), map_insert]
    cases SSet.hasKey acc (key m.1) <;> rfl

/-- the same without hashing (`set_update_internal` of `a | b` reuses the stored hashes) -/
theorem dedupM_member (acc ms : List Member) :
    PyRx.dedupM eqf (acc.map ofMember) (ms.map ofMember) = .ok ((SSet.union acc ms).map ofMember) := by
  unfold SSet.union
  induction ms generalizing acc with
  | nil => rfl
  | cons m ms ih =>
    simp only [List.map_cons, PyRx.dedupM, PyRt.ok_bind, memM_member, List.foldl_cons]
    rw [← ih (SSet.insert acc m), map_insert]
    cases SSet.hasKey acc (key m.1) <;> rfl

/-- `set_issubset` -/
theorem subsetM_member (lb la : List Member) :
    PySet.subsetM eqf (lb.map ofMember) (la.map ofMember) = .ok (la.all fun m => SSet.hasKey lb (key m.1)) := by
  induction la with
  | nil => rfl
  | cons m ms ih =>
    simp only [List.map_cons, PySet.subsetM, memM_member, PyRt.ok_bind, ih, List.all_cons]
    cases SSet.hasKey lb (key m.1) <;> rfl

/-! The same four lemmas for the form `simp` gives the closure (`pure` rewritten to `Except.ok` by `PyRt.pure_ok`), so
that they fire whether or not the surrounding `simp` call has already visited the closure. -/

set_option quotPrecheck false in
local notation "eqf'" =>
  (fun __a __b => do Except.ok (PyRt.eqResult false (← Gen.PySrc.Specifier.__eq__ __a __b)) : PyVal → PyVal → M PyVal)

theorem memM_member' (x : Member) (l : List Member) :
    PyRx.memM eqf' (ofMember x) (l.map ofMember) = .ok (SSet.hasKey l (key x.1)) := memM_member x l
theorem dedupHM_member' (acc ms : List Member) :
    PySet.dedupHM hashf eqf' (acc.map ofMember) (ms.map ofMember) = .ok ((ms.foldl SSet.insert acc).map ofMember) :=
  dedupHM_member acc ms
theorem dedupM_member' (acc ms : List Member) :
    PyRx.dedupM eqf' (acc.map ofMember) (ms.map ofMember) = .ok ((SSet.union acc ms).map ofMember) :=
  dedupM_member acc ms
theorem subsetM_member' (lb la : List Member) :
    PySet.subsetM eqf' (lb.map ofMember) (la.map ofMember) = .ok (la.all fun m => SSet.hasKey lb (key m.1)) :=
  subsetM_member lb la

/-- `frozenset(members)` -/
theorem dedupHM_nil (ms : List Member) :
    PySet.dedupHM hashf eqf [] (ms.map ofMember) = .ok ((SSet.fromList ms).map ofMember) := dedupHM_member [] ms
theorem dedupHM_nil' (ms : List Member) :
    PySet.dedupHM hashf eqf' [] (ms.map ofMember) = .ok ((SSet.fromList ms).map ofMember) := dedupHM_member [] ms

/-! ## `SpecifierSet.__init__` -/

theorem ofSpecs_ok (ms : List Member) (pre : Option Bool) : SSet.ofSpecs ms pre = .ok ⟨SSet.fromList ms, pre⟩ := by
  unfold SSet.ofSpecs
  rw [if_pos]
  simp [canonical_isOk]

/-- `SpecifierSet(iterable of Specifier, prereleases)` -/
theorem SpecifierSet.__init___specs (ms : List Member) (pre : Option Bool) :
    Gen.PySrc.SpecifierSet.__init__ (.obj "SpecifierSet" []) (.list (ms.map ofMember)) (ofOptBool pre) =
      (SSet.ofSpecs ms pre).map ofSSet := by
  simp [Gen.PySrc.SpecifierSet.__init__, isinstance, PySet.set_of_h, PyRx.setItems, dedupHM_nil, dedupHM_nil',
    ofSpecs_ok, Except.map, setattr, setField, ofSSet, ofSet]

theorem ofString_comma : Py.ofString "," = [44] := by decide

@[simp] theorem str_strip_str (s : Str) : PySet.str_strip (.str s) = .ok (.str (strip s)) := by rfl

/-- `(f(x) for x in strs if c(x))` where `f` strips and `c` tests that the stripped piece is non-empty: only what the two
closures compute on strings matters, not how they are written -/
theorem genexpIf_strip (f c : PyVal → M PyVal) (l : List Str)
    (hf : ∀ s, f (.str s) = .ok (.str (strip s))) (hc : ∀ s, c (.str s) = .ok (.bool !(strip s).isEmpty)) :
    genexpIf f c (.list (l.map .str)) = .ok (.iter (((l.map strip).filter fun c => !c.isEmpty).map .str)) := by
  have h1 : filterM c (l.map .str) = .ok ((l.filter fun s => !(strip s).isEmpty).map .str) := by
    induction l with
    | nil => rfl
    | cons x xs ih =>
      simp only [List.map_cons, filterM, hc, ih, PyRt.ok_bind, PyRt.pure_ok, truthy_bool, List.filter_cons]
      cases (strip x).isEmpty <;> rfl
  have h2 : ∀ k : List Str, mapM f (k.map .str) = .ok ((k.map strip).map .str) := by
    intro k
    induction k with
    | nil => rfl
    | cons x xs ih => simp only [List.map_cons, mapM, hf, ih, PyRt.ok_bind, PyRt.pure_ok]
  simp only [genexpIf, iterate_list, PyRt.ok_bind, h1, h2, PyRt.pure_ok, List.filter_map]
  rfl

/-- `map(Specifier, clauses)`: the first clause that is no specifier raises -/
theorem mapM_mkSpecifier (f : PyVal → M PyVal) (cs : List Str)
    (hf : ∀ c, f (.str c) = PySet.mkSpecifier "Specifier" (.str c) .none) :
    mapM f (cs.map .str) =
      (match SSet.parseAll cs with
       | none => .error "InvalidSpecifier"
       | some sps => .ok ((sps.map fun sp => ((sp, none) : Member)).map ofMember)) := by
  induction cs with
  | nil => rfl
  | cons c cs ih =>
    simp only [List.map_cons, mapM, hf, ih, SSet.parseAll, PySet.mkSpecifier]
    cases parseSpec c with
    | none => rfl
    | some sp => cases SSet.parseAll cs <;> rfl

/-- x8: `[s.strip() for s in strs]` (no filter): only what the closure computes on strings matters -/
theorem genexp_strip (f : PyVal → M PyVal) (l : List Str) (hf : ∀ s, f (.str s) = .ok (.str (strip s))) :
    genexp f (.list (l.map .str)) = .ok (.iter ((l.map strip).map .str)) := by
  have h2 : ∀ k : List Str, mapM f (k.map .str) = .ok ((k.map strip).map .str) := by
    intro k
    induction k with
    | nil => rfl
    | cons x xs ih => simp only [List.map_cons, mapM, hf, ih, PyRt.ok_bind, PyRt.pure_ok]
  simp only [genexp, iterate_list, PyRt.ok_bind, h2, PyRt.pure_ok]

/-- x8: `(Specifier(t) for t in pieces if t)`: the non-empty pieces are parsed in order (the test is pure, so filtering
first and parsing afterwards is what the generator does) -/
theorem genexpIf_mkSpecifier (f c : PyVal → M PyVal) (l : List Str)
    (hf : ∀ s, f (.str s) = PySet.mkSpecifier "Specifier" (.str s) .none)
    (hc : ∀ s, c (.str s) = .ok (.bool !s.isEmpty)) :
    genexpIf f c (.list (l.map .str)) =
      (match SSet.parseAll (l.filter fun c => !c.isEmpty) with
       | none => .error "InvalidSpecifier"
       | some sps => .ok (.iter ((sps.map fun sp => ((sp, none) : Member)).map ofMember))) := by
  have h1 : filterM c (l.map .str) = .ok ((l.filter fun s => !s.isEmpty).map .str) := by
    induction l with
    | nil => rfl
    | cons x xs ih =>
      simp only [List.map_cons, filterM, hc, ih, PyRt.ok_bind, PyRt.pure_ok, truthy_bool, List.filter_cons]
      cases x.isEmpty <;> rfl
  simp only [genexpIf, iterate_list, PyRt.ok_bind, h1, mapM_mkSpecifier f _ hf]
  cases SSet.parseAll (l.filter fun c => !c.isEmpty) <;> rfl

/-- `map(Specifier, pieces)` / `(Specifier(t) for t in pieces)` -/
theorem genexp_mkSpecifier (f : PyVal → M PyVal) (l : List Str)
    (hf : ∀ s, f (.str s) = PySet.mkSpecifier "Specifier" (.str s) .none) :
    genexp f (.list (l.map .str)) =
      (match SSet.parseAll l with
       | none => .error "InvalidSpecifier"
       | some sps => .ok (.iter ((sps.map fun sp => ((sp, none) : Member)).map ofMember))) := by
  simp only [genexp, iterate_list, PyRt.ok_bind, mapM_mkSpecifier f _ hf]
  cases SSet.parseAll l <;> rfl

/-- `SpecifierSet(str, prereleases)` -/
theorem SpecifierSet.__init___str (s : Str) (pre : Option Bool) :
    Gen.PySrc.SpecifierSet.__init__ (.obj "SpecifierSet" []) (.str s) (ofOptBool pre) =
      (SSet.ofString s pre).map ofSSet := by
  simp only [Gen.PySrc.SpecifierSet.__init__, isinstance, ofString_comma, str_split_single, genexpIf_strip, map_,
    genexp_strip, genexp_mkSpecifier, genexpIf_mkSpecifier, SSet.ofString, SSet.clauses, className_str, List.contains_cons, beq_self_eq_true,
    Bool.true_or, truthy_bool, if_true, PyRt.ok_bind, PyRt.pure_ok, list_iter, iterate_list, str_strip_str, truthy_str,
    implies_true]
  cases SSet.parseAll (List.filter (fun c => !List.isEmpty c) (List.map strip (splitOn 44 s))) with
  | none => rfl
  | some sps =>
    simp [-List.map_map, PySet.set_of_h, PyRx.setItems, dedupHM_nil, dedupHM_nil', ofSpecs_ok, Except.map, setattr,
      setField, ofSSet, ofSet]

/-! ## `SpecifierSet.__and__` -/

/-- the fresh `SpecifierSet()` -/
theorem SpecifierSet.__init___empty :
    Gen.PySrc.SpecifierSet.__init__ (.obj "SpecifierSet" []) (.str (Py.ofString "")) .none = .ok (ofSSet ⟨[], none⟩) := by
  have h := SpecifierSet.__init___str [] none
  have h2 : SSet.ofString [] none = .ok ⟨[], none⟩ := by decide
  rw [h2] at h
  exact h

/-- `frozenset(s)` of a frozenset: relabelled, nothing is hashed again -/
@[simp] theorem set_of_h_ofSet (hf : PyVal → M PyVal) (ef : PyVal → PyVal → M PyVal) (l : List Member) :
    PySet.set_of_h "frozenset" hf ef (ofSet l) = .ok (ofSet l) := by rfl

/-- `a._specs | b._specs` -/
theorem set_union_ofSet (la lb : List Member) :
    PySet.set_union eqf (ofSet la) (ofSet lb) = .ok (ofSet (SSet.union la lb)) := by
  simp only [PySet.set_union, setItems_ofSet, className_ofSet, dedupM_member]
  rfl
theorem set_union_ofSet' (la lb : List Member) :
    PySet.set_union eqf' (ofSet la) (ofSet lb) = .ok (ofSet (SSet.union la lb)) := set_union_ofSet la lb

theorem SpecifierSet.__and___eq_model (a b : SpecSet) :
    Gen.PySrc.SpecifierSet.__and__ (ofSSet a) (ofSSet b) = (a.and b).map ofSSet := by
  obtain ⟨la, pa⟩ := a
  obtain ⟨lb, pb⟩ := b
  simp only [Gen.PySrc.SpecifierSet.__and__, isinstance, SpecifierSet.__init___empty, set_union_ofSet, set_union_ofSet',
    set_of_h_ofSet, getattr_sset_specs, getattr_sset_pre, className_ofSSet, PyRt.ok_bind, PyRt.pure_ok]
  rcases pa with _ | _ | _ <;> rcases pb with _ | _ | _ <;>
    simp [SpecSet.and, SSet.combinePre, ofOptBool, is_none, is_not_none, PyVal.eq, setattr, setField, ofSSet, Except.map]

/-- `a & "…"`: the string is made a `SpecifierSet` first -/
theorem SpecifierSet.__and___str (a : SpecSet) (s : Str) :
    Gen.PySrc.SpecifierSet.__and__ (ofSSet a) (.str s) =
      (do let b ← SSet.ofString s none; a.and b).map ofSSet := by
  have hi : Gen.PySrc.SpecifierSet.__init__ (.obj "SpecifierSet" []) (.str s) .none =
      (SSet.ofString s none).map ofSSet := SpecifierSet.__init___str s none
  cases hs : SSet.ofString s none with
  | error e =>
    rw [hs] at hi
    simp [Gen.PySrc.SpecifierSet.__and__, isinstance, hi, Except.map]
  | ok b =>
    rw [hs] at hi
    have hm := SpecifierSet.__and___eq_model a b
    simp [Gen.PySrc.SpecifierSet.__and__, isinstance, hi, Except.map] at hm ⊢
    exact hm

/-! ## `SpecifierSet.__eq__` -/

/-- `a._specs == b._specs` on frozensets of members -/
theorem set_eq_ofSet (la lb : List Member) :
    PySet.set_eq eqf (ofSet la) (ofSet lb) =
      .ok (.bool (la.length == lb.length && la.all fun m => SSet.hasKey lb (key m.1))) := by
  simp only [PySet.set_eq, setItems_ofSet, subsetM_member, List.length_map]
  by_cases h : la.length = lb.length <;> simp [h]
theorem set_eq_ofSet' (la lb : List Member) :
    PySet.set_eq eqf' (ofSet la) (ofSet lb) =
      .ok (.bool (la.length == lb.length && la.all fun m => SSet.hasKey lb (key m.1))) := set_eq_ofSet la lb

theorem SpecifierSet.__eq___eq_model (a b : SpecSet) :
    Gen.PySrc.SpecifierSet.__eq__ (ofSSet a) (ofSSet b) = .ok (.bool (a.eq b)) := by
  simp [Gen.PySrc.SpecifierSet.__eq__, isinstance, set_eq_ofSet, set_eq_ofSet', SpecSet.eq]

theorem SpecifierSet.__eq___str (a : SpecSet) (s : Str) :
    Gen.PySrc.SpecifierSet.__eq__ (ofSSet a) (.str s) =
      (SSet.ofString s none).map (fun b => PyVal.bool (a.eq b)) := by
  have hi : Gen.PySrc.SpecifierSet.__init__ (.obj "SpecifierSet" []) (.str s) .none =
      (SSet.ofString s none).map ofSSet := SpecifierSet.__init___str s none
  cases hs : SSet.ofString s none with
  | error e =>
    rw [hs] at hi
    simp [Gen.PySrc.SpecifierSet.__eq__, isinstance, hi, Except.map]
  | ok b =>
    rw [hs] at hi
    simp [Gen.PySrc.SpecifierSet.__eq__, isinstance, hi, Except.map, set_eq_ofSet, set_eq_ofSet', SpecSet.eq]

theorem SpecifierSet.__eq___spec (a : SpecSet) (m : Member) :
    Gen.PySrc.SpecifierSet.__eq__ (ofSSet a) (ofMember m) =
      (SSet.ofString m.1.str none).map (fun b => PyVal.bool (a.eq b)) := by
  have hi : Gen.PySrc.SpecifierSet.__init__ (.obj "SpecifierSet" []) (.str m.1.str) .none =
      (SSet.ofString m.1.str none).map ofSSet := SpecifierSet.__init___str m.1.str none
  have hstr : Gen.PySrc.Specifier.__str__ (ofMember m) = .ok (.str m.1.str) := Specifier.__str___eq_model m.1 m.2
  cases hs : SSet.ofString m.1.str none with
  | error e =>
    rw [hs] at hi
    simp [Gen.PySrc.SpecifierSet.__eq__, isinstance, hi, hstr, Except.map]
  | ok b =>
    rw [hs] at hi
    simp [Gen.PySrc.SpecifierSet.__eq__, isinstance, hi, hstr, Except.map, set_eq_ofSet, set_eq_ofSet', SpecSet.eq]

end Src
