import PkgProofs.Props.C09
import PkgProofs.Props.C07Layout
/-!
# C09 — equality, hash and string form do not depend on the layout (character level)

For a formula written in two layouts (`C07.MkLayout`: any admissible white space, either quote style per literal,
any accepted spelling per variable, any amount of parentheses) the markers `Marker(text)` builds

* are **the same marker** when the two layouts have their parentheses at the same places (`same_marker_of_same_parens`);
* print the same string, are equal and hash alike when they differ, moreover, in redundant **outer** parentheses
  (`eq_hash_layout_independent`);
* likewise when, moreover, names compared with `extra` are spelled differently but normalise to the same name
  (`extra_spelling_layout_independent`).

Parentheses added around an inner group that had none are *not* covered: `str` keeps inner parentheses
(`(a and b) and c` and `a and b and c` print differently — by design of `_format_marker`).
-/
namespace C09
open Py Mk Pep508 MkParse MkFmt MkLex MkLexP MkWf MkLay C07
set_option linter.unusedSimpArgs false

/-- the lexical half of `C07.WF`: white-space runs, no merged words, fitting quotes and spellings -/
def WFLex (t : Formula) (ℓ : MkLayout) : Prop := WsRun ℓ.lead ∧ WsRun ℓ.trail ∧ FitsLex ℓ.body t

instance (t : Formula) (ℓ : MkLayout) : Decidable (WFLex t ℓ) := by unfold WFLex; infer_instance

theorem WFLex.of_wf {t : Formula} {ℓ : MkLayout} (h : WF t ℓ) : WFLex t ℓ := ⟨h.1, h.2.1, h.2.2.1⟩

/-- drop the parentheses around the whole expression -/
def stripOuter : ExprLay → ExprLay
  | .paren _ ℓ _ => stripOuter ℓ
  | ℓ => ℓ

/-- forget white space, quote styles and spellings; keep where the parentheses are -/
def skel : ExprLay → ExprLay
  | .atom _ => .atom ⟨.quoted 0, [], [], [], .quoted 0⟩
  | .paren _ ℓ _ => .paren [] (skel ℓ) []
  | .bin l _ _ r => .bin (skel l) [] [] (skel r)

/-- the layouts differ only in white space, quote style, variable spelling and redundant outer parentheses -/
def SameGrouping (ℓ₁ ℓ₂ : ExprLay) : Prop := skel (stripOuter ℓ₁) = skel (stripOuter ℓ₂)

instance (ℓ₁ ℓ₂ : ExprLay) : Decidable (SameGrouping ℓ₁ ℓ₂) := by unfold SameGrouping; infer_instance

theorem flat_skel : (ℓ : ExprLay) → (t : Formula) → flat (skel ℓ) t = flat ℓ t
  | .paren _ ℓ _, t => by simp [skel, flat, flat_skel ℓ t]
  | .atom _, .atom _ => by simp [skel, flat]
  | .atom _, .and _ _ => by simp [skel, flat]
  | .atom _, .or _ _ => by simp [skel, flat]
  | .bin _ _ _ _, .atom _ => by simp [skel, flat]
  | .bin l _ _ r, .and a b => by simp [skel, flat, flat_skel l a, flat_skel r b]
  | .bin l _ _ r, .or a b => by simp [skel, flat, flat_skel l a, flat_skel r b]

theorem str_stripOuter : (ℓ : ExprLay) → (t : Formula) → str (flat (stripOuter ℓ) t) = str (flat ℓ t)
  | .paren _ ℓ _, t => by
    simp only [stripOuter, flat]
    rw [(outer_parentheses_dropped (flat ℓ t)).1]
    exact str_stripOuter ℓ t
  | .atom _, _ => rfl
  | .bin _ _ _ _, _ => rfl

theorem normalizeExtra_append (X : Ext) : (a b : List M) → normalizeExtra X (a ++ b) = normalizeExtra X a ++ normalizeExtra X b
  | [], b => by simp [normalizeExtra]
  | m :: a, b => by simp [normalizeExtra, normalizeExtra_append X a b]

/-- `_normalize_extra_values` acts on the comparisons only -/
theorem flat_norm (X : Ext) : (ℓ : ExprLay) → (t : Formula) →
    normalizeExtra X (flat ℓ t) = flat ℓ (MkParse.Formula.map (normAtom X) t)
  | .paren _ ℓ _, t => by simp [flat, normalizeExtra, normM, flat_norm X ℓ t]
  | .atom _, .atom _ => by simp [flat, normalizeExtra, normM, MkParse.Formula.map]
  | .atom _, .and _ _ => by simp [flat, normalizeExtra, MkParse.Formula.map]
  | .atom _, .or _ _ => by simp [flat, normalizeExtra, MkParse.Formula.map]
  | .bin _ _ _ _, .atom _ => by simp [flat, normalizeExtra, MkParse.Formula.map]
  | .bin l _ _ r, .and a b => by
    simp [flat, normalizeExtra_append, normalizeExtra, normM, MkParse.Formula.map, flat_norm X l a, flat_norm X r b]
  | .bin l _ _ r, .or a b => by
    simp [flat, normalizeExtra_append, normalizeExtra, normM, MkParse.Formula.map, flat_norm X l a, flat_norm X r b]

/-- `Marker(text)` for a laid-out formula -/
theorem mkMarker_lex (X : Ext) (t : Formula) (ℓ : MkLayout) (h : WFLex t ℓ) :
    mkMarker X (renderL t ℓ) = .ok (flat ℓ.body (MkParse.Formula.map (normAtom X) t)) := by
  have := C07.marker_parse_render_lex t ℓ h.1 h.2.1 h.2.2
  simp [mkMarker, this, Except.map, flat_norm]

theorem str_of_sameGrouping (ℓ₁ ℓ₂ : ExprLay) (h : SameGrouping ℓ₁ ℓ₂) (t : Formula) : str (flat ℓ₁ t) = str (flat ℓ₂ t) := by
  rw [← str_stripOuter ℓ₁ t, ← str_stripOuter ℓ₂ t, ← flat_skel (stripOuter ℓ₁) t, ← flat_skel (stripOuter ℓ₂) t, h]

/-- **same parentheses ⇒ the same marker**: white space, quote style and variable spelling leave no trace at
all in the constructed marker -/
theorem same_marker_of_same_parens (X : Ext) (t : Formula) (ℓ₁ ℓ₂ : MkLayout) (h₁ : WFLex t ℓ₁) (h₂ : WFLex t ℓ₂)
    (hs : skel ℓ₁.body = skel ℓ₂.body) :
    ∃ m, mkMarker X (renderL t ℓ₁) = .ok m ∧ mkMarker X (renderL t ℓ₂) = .ok m ∧
      Mk.parse (renderL t ℓ₁) = Mk.parse (renderL t ℓ₂) := by
  refine ⟨_, mkMarker_lex X t ℓ₁ h₁, ?_, ?_⟩
  · rw [mkMarker_lex X t ℓ₂ h₂, ← flat_skel ℓ₁.body, ← flat_skel ℓ₂.body, hs]
  · rw [C07.marker_parse_render_lex t ℓ₁ h₁.1 h₁.2.1 h₁.2.2, C07.marker_parse_render_lex t ℓ₂ h₂.1 h₂.2.1 h₂.2.2,
      ← flat_skel ℓ₁.body, ← flat_skel ℓ₂.body, hs]

/-- **Markers that differ only in white space, quote style, PEP 345 / alias variable spellings and redundant
outer parentheses are equal and hash alike** (character level, through `Marker.__init__`): both texts are
accepted, and the two markers print the same string, compare equal and have the same hash key — and so do the
bare parse results. -/
theorem eq_hash_layout_independent (X : Ext) (t : Formula) (ℓ₁ ℓ₂ : MkLayout) (h₁ : WFLex t ℓ₁) (h₂ : WFLex t ℓ₂)
    (hs : SameGrouping ℓ₁.body ℓ₂.body) :
    ∃ m₁ m₂, mkMarker X (renderL t ℓ₁) = .ok m₁ ∧ mkMarker X (renderL t ℓ₂) = .ok m₂ ∧
      str m₁ = str m₂ ∧ eq m₁ m₂ = true ∧ hashKey m₁ = hashKey m₂ ∧
      ∃ p₁ p₂, Mk.parse (renderL t ℓ₁) = .ok p₁ ∧ Mk.parse (renderL t ℓ₂) = .ok p₂ ∧
        str p₁ = str p₂ ∧ eq p₁ p₂ = true ∧ hashKey p₁ = hashKey p₂ := by
  have e := str_of_sameGrouping ℓ₁.body ℓ₂.body hs (MkParse.Formula.map (normAtom X) t)
  have e' := str_of_sameGrouping ℓ₁.body ℓ₂.body hs t
  exact ⟨_, _, mkMarker_lex X t ℓ₁ h₁, mkMarker_lex X t ℓ₂ h₂, e, by simp [eq, e], by simp [hashKey, e],
    _, _, C07.marker_parse_render_lex t ℓ₁ h₁.1 h₁.2.1 h₁.2.2, C07.marker_parse_render_lex t ℓ₂ h₂.1 h₂.2.1 h₂.2.2,
    e', by simp [eq, e'], by simp [hashKey, e']⟩

/-- **… and in the spelling of names compared with `extra`**: two formulas whose comparisons agree after
`_normalize_extra_values` (e.g. `extra == "Foo_Bar"` / `extra == "foo-bar"`, by `extra_spelling_normalised`), in
layouts that differ as above, give markers that print the same, are equal, hash alike and evaluate identically. -/
theorem extra_spelling_layout_independent (X : Ext) (t₁ t₂ : Formula) (ℓ₁ ℓ₂ : MkLayout) (h₁ : WFLex t₁ ℓ₁) (h₂ : WFLex t₂ ℓ₂)
    (ht : MkParse.Formula.map (normAtom X) t₁ = MkParse.Formula.map (normAtom X) t₂)
    (hs : SameGrouping ℓ₁.body ℓ₂.body) :
    ∃ m₁ m₂, mkMarker X (renderL t₁ ℓ₁) = .ok m₁ ∧ mkMarker X (renderL t₂ ℓ₂) = .ok m₂ ∧
      str m₁ = str m₂ ∧ eq m₁ m₂ = true ∧ hashKey m₁ = hashKey m₂ := by
  have e := str_of_sameGrouping ℓ₁.body ℓ₂.body hs (MkParse.Formula.map (normAtom X) t₁)
  refine ⟨_, _, mkMarker_lex X t₁ ℓ₁ h₁, mkMarker_lex X t₂ ℓ₂ h₂, ?_, ?_, ?_⟩ <;> rw [← ht] <;> simp [eq, hashKey, e]

/-- the premise of the previous theorem for one comparison with `extra`, either side -/
theorem map_norm_extra (X : Ext) (op s s' : Str) (h : X.canonName s = X.canonName s') :
    MkParse.Formula.map (normAtom X) (.atom ⟨.var s_extra, op, .val s⟩) = MkParse.Formula.map (normAtom X) (.atom ⟨.var s_extra, op, .val s'⟩) ∧
    MkParse.Formula.map (normAtom X) (.atom ⟨.val s, op, .var s_extra⟩) = MkParse.Formula.map (normAtom X) (.atom ⟨.val s', op, .var s_extra⟩) := by
  obtain ⟨a, b⟩ := extra_spelling_normalised X op s s' h
  simp [MkParse.Formula.map, a, b]

/-! ### Non-vacuity -/
section LayoutExamples

example : WFLex exT layA ∧ WFLex exT layB := by decide +kernel
/-- layout B has parentheses around comparisons, which `str` drops only via the normal form — not "outer" -/
example : ¬ SameGrouping layA.body layB.body := by decide +kernel

/-- layout A again, in canonical dress and wrapped twice: `(( os_name == "a" or … and (… or …) ))` -/
def layC : MkLayout :=
  ⟨[],
   .paren [] (.paren [32]
   (.bin (.atom ⟨.spelled C07.os_name, [32], [], [32], .quoted 34⟩) [32] [32]
     (.bin (.atom ⟨.quoted 39, [32], [], [32], .spelled v_extra⟩) [32] [32]
       (.paren [] (.bin (.atom ⟨.spelled s_pfv, [32], [], [32], .quoted 34⟩) [32] [32]
                        (.atom ⟨.spelled v_extra, [32], [32], [32], .quoted 34⟩)) []))) [32]) [],
   []⟩

example : WF exT layC := by decide +kernel
example : SameGrouping layA.body layC.body := by decide +kernel
example : skel layA.body ≠ skel layC.body := by decide +kernel
/-- the two texts are very different, the strings of the markers coincide -/
example : renderL exT layA ≠ renderL exT layC ∧
    ((Mk.parse (renderL exT layA)).toOption.map str = (Mk.parse (renderL exT layC)).toOption.map str) := by decide +kernel

end LayoutExamples

end C09
