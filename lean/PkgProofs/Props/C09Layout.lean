import PkgProofs.Props.C09
import PkgProofs.Props.C07Layout
/-!
# C09 — equality, hash and string form do not depend on the layout (character level)

For a formula written in two layouts (`C07.MkLayout`: any admissible white space, either quote style per literal,
any accepted spelling per variable, any amount of parentheses) the markers `Marker(text)` builds

* are **the same marker** when the two layouts have their parentheses at the same places (`same_marker_of_same_parens`);
* print the same string, are equal and hash alike when they differ, moreover, in **redundant parentheses** —
  around the whole expression, around single comparisons, doubled ones (`SameGrouping`, `eq_hash_layout_independent`);
* likewise when, moreover, names compared with `extra` are spelled differently but normalise to the same name
  (`extra_spelling_layout_independent`).

Parentheses added around an inner *group* that had none are not redundant for `str`: `_format_marker` keeps them
(`(a and b) and c` and `a and b and c` print differently; see the example at the end).
-/
namespace C09
open Py Mk Pep508 MkParse MkFmt MkLex MkLexP MkWf MkLay C07
set_option linter.unusedSimpArgs false

/-- the lexical half of `C07.WF`: white-space runs, no merged words, fitting quotes and spellings -/
def WFLex (t : Formula) (ℓ : MkLayout) : Prop := WsRun ℓ.lead ∧ WsRun ℓ.trail ∧ FitsLex ℓ.body t

instance (t : Formula) (ℓ : MkLayout) : Decidable (WFLex t ℓ) := by unfold WFLex; infer_instance

theorem WFLex.of_wf {t : Formula} {ℓ : MkLayout} (h : WF t ℓ) : WFLex t ℓ := ⟨h.1, h.2.1, h.2.2.1⟩

/-- drop the parentheses around the whole expression -/
def stripOuter : ExprLay → ExprLay
  | .paren _ ℓ _ => stripOuter ℓ
  | ℓ => ℓ

/-- forget white space, quote styles and spellings; keep where the parentheses are -/
def skel : ExprLay → ExprLay
  | .atom _ => .atom ⟨.quoted 0, [], [], [], .quoted 0⟩
  | .paren _ ℓ _ => .paren [] (skel ℓ) []
  | .bin l _ _ r => .bin (skel l) [] [] (skel r)

/-- normal form of the parentheses inside an expression: none around a single comparison, never doubled -/
def nfP : ExprLay → ExprLay
  | .atom L => .atom L
  | .bin l w1 w2 r => .bin (nfP l) w1 w2 (nfP r)
  | .paren _ ℓ _ =>
    match nfP ℓ with
    | .atom L => .atom L
    | .paren a x b => .paren a x b
    | .bin l w1 w2 r => .paren [] (.bin l w1 w2 r) []

/-- the layouts differ only in white space, quote style, variable spelling and **redundant parentheses**: around the
whole expression, around single comparisons, and doubled ones -/
def SameGrouping (ℓ₁ ℓ₂ : ExprLay) : Prop := skel (stripOuter (nfP ℓ₁)) = skel (stripOuter (nfP ℓ₂))

instance (ℓ₁ ℓ₂ : ExprLay) : Decidable (SameGrouping ℓ₁ ℓ₂) := by unfold SameGrouping; infer_instance

/-- layout and formula have the same shape -/
def Shaped : ExprLay → Formula → Prop
  | .paren _ ℓ _, t => Shaped ℓ t
  | .atom _, .atom _ => True
  | .bin ℓl _ _ ℓr, .and l r => Shaped ℓl l ∧ Shaped ℓr r
  | .bin ℓl _ _ ℓr, .or l r => Shaped ℓl l ∧ Shaped ℓr r
  | _, _ => False

theorem shaped_of_fits : (ℓ : ExprLay) → (t : Formula) → FitsLex ℓ t → Shaped ℓ t
  | .paren _ ℓ _, t, h => by simp only [FitsLex] at h; simp only [Shaped]; exact shaped_of_fits ℓ t h.2.2
  | .atom _, .atom _, _ => by simp [Shaped]
  | .atom _, .and _ _, h => by simp [FitsLex] at h
  | .atom _, .or _ _, h => by simp [FitsLex] at h
  | .bin _ _ _ _, .atom _, h => by simp [FitsLex] at h
  | .bin l _ _ r, .and a b, h => by
    simp only [FitsLex] at h; simp only [Shaped]; exact ⟨shaped_of_fits l a h.1, shaped_of_fits r b h.2.1⟩
  | .bin l _ _ r, .or a b, h => by
    simp only [FitsLex] at h; simp only [Shaped]; exact ⟨shaped_of_fits l a h.1, shaped_of_fits r b h.2.1⟩

theorem flat_ne : (ℓ : ExprLay) → (t : Formula) → Shaped ℓ t → flat ℓ t ≠ []
  | .paren _ _ _, _, _ => by simp [flat]
  | .atom _, .atom _, _ => by simp [flat]
  | .atom _, .and _ _, h => by simp [Shaped] at h
  | .atom _, .or _ _, h => by simp [Shaped] at h
  | .bin _ _ _ _, .atom _, h => by simp [Shaped] at h
  | .bin _ _ _ _, .and _ _, _ => by simp [flat]
  | .bin _ _ _ _, .or _ _, _ => by simp [flat]

theorem nfEach_append : (a b : List M) → nfEach (a ++ b) = nfEach a ++ nfEach b
  | [], b => by simp [nfEach]
  | m :: a, b => by simp [nfEach, nfEach_append a b]

theorem two_of_bin (A B : List M) (s : Str) (hA : A ≠ []) : ∃ x y r, A ++ [.bool s] ++ B = x :: y :: r := by
  cases A with
  | nil => exact absurd rfl hA
  | cons x A' =>
    cases A' with
    | nil => exact ⟨x, .bool s, B, by simp⟩
    | cons y A'' => exact ⟨x, y, A'' ++ [.bool s] ++ B, by simp⟩

theorem nfWrap_two (l : List M) (h : ∃ x y r, l = x :: y :: r) : nfWrap l = .list (nfEach l) ∧ nfTop l = nfEach l := by
  obtain ⟨x, y, r, rfl⟩ := h
  simp [nfWrap, nfTop, nfEach]

/-- what is left of the nesting after printing depends on the layout only through `nfP` -/
theorem nf_nfP : (ℓ : ExprLay) → (t : Formula) → Shaped ℓ t →
    Shaped (nfP ℓ) t ∧ nfEach (flat (nfP ℓ) t) = nfEach (flat ℓ t) ∧ nfWrap (flat (nfP ℓ) t) = nfWrap (flat ℓ t) ∧
      nfTop (flat (nfP ℓ) t) = nfTop (flat ℓ t)
  | .atom _, _, h => ⟨h, rfl, rfl, rfl⟩
  | .bin _ _ _ _, .atom _, h => by simp [Shaped] at h
  | .bin l w1 w2 r, .and a b, h => by
    simp only [Shaped] at h
    obtain ⟨sl, el, _, _⟩ := nf_nfP l a h.1
    obtain ⟨sr, er, _, _⟩ := nf_nfP r b h.2
    have t1 := two_of_bin (flat (nfP l) a) (flat (nfP r) b) s_and (flat_ne _ _ sl)
    have t2 := two_of_bin (flat l a) (flat r b) s_and (flat_ne _ _ h.1)
    have ee : nfEach (flat (nfP l) a ++ [.bool s_and] ++ flat (nfP r) b) = nfEach (flat l a ++ [.bool s_and] ++ flat r b) := by
      simp only [nfEach_append, el, er]
    simp only [nfP, flat, Shaped]
    exact ⟨⟨sl, sr⟩, ee, by rw [(nfWrap_two _ t1).1, (nfWrap_two _ t2).1, ee], by rw [(nfWrap_two _ t1).2, (nfWrap_two _ t2).2, ee]⟩
  | .bin l w1 w2 r, .or a b, h => by
    simp only [Shaped] at h
    obtain ⟨sl, el, _, _⟩ := nf_nfP l a h.1
    obtain ⟨sr, er, _, _⟩ := nf_nfP r b h.2
    have t1 := two_of_bin (flat (nfP l) a) (flat (nfP r) b) s_or (flat_ne _ _ sl)
    have t2 := two_of_bin (flat l a) (flat r b) s_or (flat_ne _ _ h.1)
    have ee : nfEach (flat (nfP l) a ++ [.bool s_or] ++ flat (nfP r) b) = nfEach (flat l a ++ [.bool s_or] ++ flat r b) := by
      simp only [nfEach_append, el, er]
    simp only [nfP, flat, Shaped]
    exact ⟨⟨sl, sr⟩, ee, by rw [(nfWrap_two _ t1).1, (nfWrap_two _ t2).1, ee], by rw [(nfWrap_two _ t1).2, (nfWrap_two _ t2).2, ee]⟩
  | .paren w1 ℓ w2, t, h => by
    simp only [Shaped] at h
    obtain ⟨s0, e0, w0, t0⟩ := nf_nfP ℓ t h
    have eP : nfEach (flat (.paren w1 ℓ w2) t) = [nfWrap (flat ℓ t)] := by simp [flat, nfEach, nfItem]
    have wP : nfWrap (flat (.paren w1 ℓ w2) t) = nfWrap (flat ℓ t) := by simp [flat, nfWrap]
    have tP : nfTop (flat (.paren w1 ℓ w2) t) = nfTop (flat ℓ t) := by simp [flat, nfTop]
    rw [eP, wP, tP]
    simp only [nfP]
    cases hn : nfP ℓ with
    | atom L =>
      rw [hn] at s0 e0 w0 t0
      simp only
      cases t with
      | atom a =>
        refine ⟨s0, ?_, w0, t0⟩
        rw [← w0]; simp [flat, nfEach, nfItem, nfWrap]
      | and _ _ => simp [Shaped] at s0
      | or _ _ => simp [Shaped] at s0
    | paren a x b =>
      rw [hn] at s0 e0 w0 t0
      simp only
      refine ⟨s0, ?_, w0, t0⟩
      rw [← w0]; simp [flat, nfEach, nfItem, nfWrap]
    | bin l a b r =>
      rw [hn] at s0 e0 w0 t0
      simp only
      refine ⟨by simpa [Shaped] using s0, ?_, ?_, ?_⟩
      · rw [← w0]; simp [flat, nfEach, nfItem]
      · rw [← w0]; simp [flat, nfWrap]
      · rw [← t0]; simp [flat, nfTop]

theorem str_nfP (ℓ : ExprLay) (t : Formula) (h : Shaped ℓ t) : str (flat (nfP ℓ) t) = str (flat ℓ t) := by
  rw [str_eq_spell, str_eq_spell, fmtToksL_true, fmtToksL_true, (nf_nfP ℓ t h).2.2.2]

theorem flat_skel : (ℓ : ExprLay) → (t : Formula) → flat (skel ℓ) t = flat ℓ t
  | .paren _ ℓ _, t => by simp [skel, flat, flat_skel ℓ t]
  | .atom _, .atom _ => by simp [skel, flat]
  | .atom _, .and _ _ => by simp [skel, flat]
  | .atom _, .or _ _ => by simp [skel, flat]
  | .bin _ _ _ _, .atom _ => by simp [skel, flat]
  | .bin l _ _ r, .and a b => by simp [skel, flat, flat_skel l a, flat_skel r b]
  | .bin l _ _ r, .or a b => by simp [skel, flat, flat_skel l a, flat_skel r b]

theorem str_stripOuter : (ℓ : ExprLay) → (t : Formula) → str (flat (stripOuter ℓ) t) = str (flat ℓ t)
  | .paren _ ℓ _, t => by
    simp only [stripOuter, flat]
    rw [(outer_parentheses_dropped (flat ℓ t)).1]
    exact str_stripOuter ℓ t
  | .atom _, _ => rfl
  | .bin _ _ _ _, _ => rfl

theorem normalizeExtra_append (X : Ext) : (a b : List M) → normalizeExtra X (a ++ b) = normalizeExtra X a ++ normalizeExtra X b
  | [], b => by simp [normalizeExtra]
  | m :: a, b => by simp [normalizeExtra, normalizeExtra_append X a b]

/-- `_normalize_extra_values` acts on the comparisons only -/
theorem flat_norm (X : Ext) : (ℓ : ExprLay) → (t : Formula) →
    normalizeExtra X (flat ℓ t) = flat ℓ (MkParse.Formula.map (normAtom X) t)
  | .paren _ ℓ _, t => by simp [flat, normalizeExtra, normM, flat_norm X ℓ t]
  | .atom _, .atom _ => by simp [flat, normalizeExtra, normM, MkParse.Formula.map]
  | .atom _, .and _ _ => by simp [flat, normalizeExtra, MkParse.Formula.map]
  | .atom _, .or _ _ => by simp [flat, normalizeExtra, MkParse.Formula.map]
  | .bin _ _ _ _, .atom _ => by simp [flat, normalizeExtra, MkParse.Formula.map]
  | .bin l _ _ r, .and a b => by
    simp [flat, normalizeExtra_append, normalizeExtra, normM, MkParse.Formula.map, flat_norm X l a, flat_norm X r b]
  | .bin l _ _ r, .or a b => by
    simp [flat, normalizeExtra_append, normalizeExtra, normM, MkParse.Formula.map, flat_norm X l a, flat_norm X r b]

/-- `Marker(text)` for a laid-out formula -/
theorem mkMarker_lex (X : Ext) (t : Formula) (ℓ : MkLayout) (h : WFLex t ℓ) :
    mkMarker X (renderL t ℓ) = .ok (flat ℓ.body (MkParse.Formula.map (normAtom X) t)) := by
  have := C07.marker_parse_render_lex t ℓ h.1 h.2.1 h.2.2
  simp [mkMarker, this, Except.map, flat_norm]

theorem str_of_sameGrouping (ℓ₁ ℓ₂ : ExprLay) (h : SameGrouping ℓ₁ ℓ₂) (t : Formula) (s₁ : Shaped ℓ₁ t) (s₂ : Shaped ℓ₂ t) :
    str (flat ℓ₁ t) = str (flat ℓ₂ t) := by
  rw [← str_nfP ℓ₁ t s₁, ← str_nfP ℓ₂ t s₂, ← str_stripOuter (nfP ℓ₁) t, ← str_stripOuter (nfP ℓ₂) t,
    ← flat_skel (stripOuter (nfP ℓ₁)) t, ← flat_skel (stripOuter (nfP ℓ₂)) t, h]

theorem shaped_map (g : Atom → Atom) : (ℓ : ExprLay) → (t : Formula) → Shaped ℓ t → Shaped ℓ (MkParse.Formula.map g t)
  | .paren _ ℓ _, t, h => by simp only [Shaped] at h ⊢; exact shaped_map g ℓ t h
  | .atom _, .atom _, _ => by simp [Shaped, MkParse.Formula.map]
  | .atom _, .and _ _, h => by simp [Shaped] at h
  | .atom _, .or _ _, h => by simp [Shaped] at h
  | .bin _ _ _ _, .atom _, h => by simp [Shaped] at h
  | .bin l _ _ r, .and a b, h => by
    simp only [Shaped, MkParse.Formula.map] at h ⊢; exact ⟨shaped_map g l a h.1, shaped_map g r b h.2⟩
  | .bin l _ _ r, .or a b, h => by
    simp only [Shaped, MkParse.Formula.map] at h ⊢; exact ⟨shaped_map g l a h.1, shaped_map g r b h.2⟩

/-- **same parentheses ⇒ the same marker**: white space, quote style and variable spelling leave no trace at
all in the constructed marker -/
theorem same_marker_of_same_parens (X : Ext) (t : Formula) (ℓ₁ ℓ₂ : MkLayout) (h₁ : WFLex t ℓ₁) (h₂ : WFLex t ℓ₂)
    (hs : skel ℓ₁.body = skel ℓ₂.body) :
    ∃ m, mkMarker X (renderL t ℓ₁) = .ok m ∧ mkMarker X (renderL t ℓ₂) = .ok m ∧
      Mk.parse (renderL t ℓ₁) = Mk.parse (renderL t ℓ₂) := by
  refine ⟨_, mkMarker_lex X t ℓ₁ h₁, ?_, ?_⟩
  · rw [mkMarker_lex X t ℓ₂ h₂, ← flat_skel ℓ₁.body, ← flat_skel ℓ₂.body, hs]
  · rw [C07.marker_parse_render_lex t ℓ₁ h₁.1 h₁.2.1 h₁.2.2, C07.marker_parse_render_lex t ℓ₂ h₂.1 h₂.2.1 h₂.2.2,
      ← flat_skel ℓ₁.body, ← flat_skel ℓ₂.body, hs]

/-- **Markers that differ only in white space, quote style, PEP 345 / alias variable spellings and redundant
outer parentheses are equal and hash alike** (character level, through `Marker.__init__`): both texts are
accepted, and the two markers print the same string, compare equal and have the same hash key — and so do the
bare parse results. -/
theorem eq_hash_layout_independent (X : Ext) (t : Formula) (ℓ₁ ℓ₂ : MkLayout) (h₁ : WFLex t ℓ₁) (h₂ : WFLex t ℓ₂)
    (hs : SameGrouping ℓ₁.body ℓ₂.body) :
    ∃ m₁ m₂, mkMarker X (renderL t ℓ₁) = .ok m₁ ∧ mkMarker X (renderL t ℓ₂) = .ok m₂ ∧
      str m₁ = str m₂ ∧ eq m₁ m₂ = true ∧ hashKey m₁ = hashKey m₂ ∧
      ∃ p₁ p₂, Mk.parse (renderL t ℓ₁) = .ok p₁ ∧ Mk.parse (renderL t ℓ₂) = .ok p₂ ∧
        str p₁ = str p₂ ∧ eq p₁ p₂ = true ∧ hashKey p₁ = hashKey p₂ := by
  have sh₁ := shaped_of_fits _ _ h₁.2.2
  have sh₂ := shaped_of_fits _ _ h₂.2.2
  have e := str_of_sameGrouping ℓ₁.body ℓ₂.body hs (MkParse.Formula.map (normAtom X) t) (shaped_map _ _ _ sh₁) (shaped_map _ _ _ sh₂)
  have e' := str_of_sameGrouping ℓ₁.body ℓ₂.body hs t sh₁ sh₂
  exact ⟨_, _, mkMarker_lex X t ℓ₁ h₁, mkMarker_lex X t ℓ₂ h₂, e, by simp [eq, e], by simp [hashKey, e],
    _, _, C07.marker_parse_render_lex t ℓ₁ h₁.1 h₁.2.1 h₁.2.2, C07.marker_parse_render_lex t ℓ₂ h₂.1 h₂.2.1 h₂.2.2,
    e', by simp [eq, e'], by simp [hashKey, e']⟩

/-- **… and in the spelling of names compared with `extra`**: two formulas whose comparisons agree after
`_normalize_extra_values` (e.g. `extra == "Foo_Bar"` / `extra == "foo-bar"`, by `extra_spelling_normalised`), in
layouts that differ as above, give markers that print the same, are equal, hash alike and evaluate identically. -/
theorem extra_spelling_layout_independent (X : Ext) (t₁ t₂ : Formula) (ℓ₁ ℓ₂ : MkLayout) (h₁ : WFLex t₁ ℓ₁) (h₂ : WFLex t₂ ℓ₂)
    (ht : MkParse.Formula.map (normAtom X) t₁ = MkParse.Formula.map (normAtom X) t₂)
    (hs : SameGrouping ℓ₁.body ℓ₂.body) :
    ∃ m₁ m₂, mkMarker X (renderL t₁ ℓ₁) = .ok m₁ ∧ mkMarker X (renderL t₂ ℓ₂) = .ok m₂ ∧
      str m₁ = str m₂ ∧ eq m₁ m₂ = true ∧ hashKey m₁ = hashKey m₂ := by
  have sh₁ := shaped_map (normAtom X) _ _ (shaped_of_fits _ _ h₁.2.2)
  have sh₂ := shaped_map (normAtom X) _ _ (shaped_of_fits _ _ h₂.2.2)
  rw [← ht] at sh₂
  have e := str_of_sameGrouping ℓ₁.body ℓ₂.body hs (MkParse.Formula.map (normAtom X) t₁) sh₁ sh₂
  refine ⟨_, _, mkMarker_lex X t₁ ℓ₁ h₁, mkMarker_lex X t₂ ℓ₂ h₂, ?_, ?_, ?_⟩ <;> rw [← ht] <;> simp [eq, hashKey, e]

/-- the premise of the previous theorem for one comparison with `extra`, either side -/
theorem map_norm_extra (X : Ext) (op s s' : Str) (h : X.canonName s = X.canonName s') :
    MkParse.Formula.map (normAtom X) (.atom ⟨.var s_extra, op, .val s⟩) = MkParse.Formula.map (normAtom X) (.atom ⟨.var s_extra, op, .val s'⟩) ∧
    MkParse.Formula.map (normAtom X) (.atom ⟨.val s, op, .var s_extra⟩) = MkParse.Formula.map (normAtom X) (.atom ⟨.val s', op, .var s_extra⟩) := by
  obtain ⟨a, b⟩ := extra_spelling_normalised X op s s' h
  simp [MkParse.Formula.map, a, b]

/-! ### Non-vacuity -/
section LayoutExamples

example : WFLex exT layA ∧ WFLex exT layB := by decide +kernel
/-- layout B has parentheses around comparisons, a doubled pair and an outer pair: all redundant -/
example : SameGrouping layA.body layB.body := by decide +kernel
/-- parentheses around a group that had none are not redundant for `str`: `(a and b) and c` vs `a and b and c` -/
example : ¬ SameGrouping (.bin (.paren [] (.bin (.atom ⟨.quoted 0, [], [], [], .quoted 0⟩) [] [] (.atom ⟨.quoted 0, [], [], [], .quoted 0⟩)) []) [] []
      (.atom ⟨.quoted 0, [], [], [], .quoted 0⟩))
    (.bin (.bin (.atom ⟨.quoted 0, [], [], [], .quoted 0⟩) [] [] (.atom ⟨.quoted 0, [], [], [], .quoted 0⟩)) [] []
      (.atom ⟨.quoted 0, [], [], [], .quoted 0⟩)) := by decide +kernel

/-- layout A again, in canonical dress and wrapped twice: `(( os_name == "a" or … and (… or …) ))` -/
def layC : MkLayout :=
  ⟨[],
   .paren [] (.paren [32]
   (.bin (.atom ⟨.spelled C07.os_name, [32], [], [32], .quoted 34⟩) [32] [32]
     (.bin (.atom ⟨.quoted 39, [32], [], [32], .spelled v_extra⟩) [32] [32]
       (.paren [] (.bin (.atom ⟨.spelled s_pfv, [32], [], [32], .quoted 34⟩) [32] [32]
                        (.atom ⟨.spelled v_extra, [32], [32], [32], .quoted 34⟩)) []))) [32]) [],
   [], false⟩

example : WF exT layC := by decide +kernel
example : SameGrouping layA.body layC.body := by decide +kernel
example : skel layA.body ≠ skel layC.body := by decide +kernel
/-- the two texts are very different, the strings of the markers coincide -/
example : renderL exT layA ≠ renderL exT layC ∧
    ((Mk.parse (renderL exT layA)).toOption.map str = (Mk.parse (renderL exT layC)).toOption.map str) ∧
    ((Mk.parse (renderL exT layA)).toOption.map str = (Mk.parse (renderL exT layB)).toOption.map str) := by decide +kernel

end LayoutExamples

end C09
